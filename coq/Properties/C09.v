(** C09 — File meta group integrity and preamble handling.
    Statements only; proofs are in Proofs/MetaP.v, the model in Model/Meta.v. *)
From DicomV Require Import Base.Prelude Base.Endian Model.Meta Proofs.MetaP Proofs.MetaTotalP.
Open Scope N_scope.

(** Every table produced by the builder records the calculated length, and ANY list of
    attribute operations (successful or failing) keeps it that way. *)
Theorem C09_invariant : forall iu inm bd t0 ops,
  build iu inm bd = Ok t0 -> up_to_date (apply_all ops t0).
Proof. intros. eapply apply_all_up_to_date, build_up_to_date; eassumption. Qed.

(** A failing operation has no effect on the table; a successful one re-establishes the invariant
    even on a table whose recorded length was stale. *)
Theorem C09_failed_op_unchanged : forall op t, fst (apply_meta op t) <> Ok tt -> snd (apply_meta op t) = t.
Proof. exact apply_meta_fail. Qed.
Theorem C09_ok_op_updates : forall op t, fst (apply_meta op t) = Ok tt -> up_to_date (snd (apply_meta op t)).
Proof. exact apply_meta_ok. Qed.

(** Main statement, part 1: after any history of operations on a built table, if the table is in
    the default repertoire (ASCII) and is written successfully, the recorded group length is the
    number of bytes of the encoded group that follow the (12-byte) group length element.
    [small]: no field reaches 2 GiB (where the u32 arithmetic of the code would wrap). *)
Theorem C09_group_length : forall iu inm bd t0 ops b,
  build iu inm bd = Ok t0 ->
  let t := apply_all ops t0 in
  ascii_table t = true -> small t -> write_meta t = Ok b ->
  m_glen t = blen (skipn 12 b).
Proof.
  intros iu inm bd t0 ops b Hb t Ha Hs Hw.
  apply group_length_matches; try assumption. eapply C09_invariant; eassumption.
Qed.

(** Part 2: reading the written group back (after the magic code, whatever follows the group)
    consumes exactly the group and yields a table equal to the one written
    ([meta_eqb] = the table's own PartialEq: trailing padding is ignored). *)
Theorem C09_roundtrip : forall iu inm bd t0 ops b tail,
  build iu inm bd = Ok t0 ->
  let t := apply_all ops t0 in
  ascii_table t = true -> small t -> write_meta t = Ok b ->
  exists t', read_meta iu inm (DICM ++ b ++ tail) = Ok (t', tail) /\ meta_eqb t' t = true.
Proof.
  intros iu inm bd t0 ops b tail Hb t Ha Hs Hw.
  assert (Hu : up_to_date t) by (eapply C09_invariant; eassumption).
  exists (norm_table t). split.
  - apply read_written; assumption.
  - apply meta_eqb_norm; assumption.
Qed.

(** The same two facts for any table whose recorded length is up to date (however obtained). *)
Theorem C09_group_length_any : forall t b,
  up_to_date t -> ascii_table t = true -> small t -> write_meta t = Ok b ->
  m_glen t = blen (skipn 12 b) /\
  forall iu inm tail, exists t', read_meta iu inm (DICM ++ b ++ tail) = Ok (t', tail) /\ meta_eqb t' t = true.
Proof.
  intros t b Hu Ha Hs Hw. split; [apply group_length_matches; assumption|].
  intros iu inm tail. exists (norm_table t). split; [apply read_written; assumption|apply meta_eqb_norm; assumption].
Qed.

(** Remark (outside the property's "default repertoire"): with one Latin-1 character the
    recorded length (UTF-8 bytes of the Rust String) exceeds the encoded length. *)
Theorem C09_non_ascii_remark :
  exists b, write_meta latin1_witness = Ok b /\ m_glen latin1_witness <> blen (skipn 12 b).
Proof. exact non_ascii_mismatch. Qed.

(** Part 3, preamble. A file with a 128-byte preamble (whatever its content) is opened identically
    by path and from a byte source, as if the preamble were not there. *)
Theorem C09_preamble_present : forall iu inm pre rest,
  length pre = 128%nat ->
  open_by_path iu inm PAuto (pre ++ DICM ++ rest) = read_meta iu inm (DICM ++ rest) /\
  open_by_reader iu inm PAuto (pre ++ DICM ++ rest) = read_meta iu inm (DICM ++ rest).
Proof. exact open_with_preamble. Qed.

(** A file without preamble is opened identically by path and from a byte source, outside the
    known class "DICM at offset 128 of a file that starts with DICM". *)
Theorem C09_preamble_absent_outside_known : forall iu inm rest,
  dicm_at_128 (DICM ++ rest) = false ->
  open_by_path iu inm PAuto (DICM ++ rest) = read_meta iu inm (DICM ++ rest) /\
  open_by_reader iu inm PAuto (DICM ++ rest) = read_meta iu inm (DICM ++ rest).
Proof. exact open_without_preamble. Qed.

(** Known finding NoPreambleDicmAt128: a well-formed file without preamble (it reads back equal
    when the preamble option is not consulted) that neither opener can open with [Auto]. *)
Theorem C09_preamble_refuted :
  firstn 4 dicm128_file = DICM /\ dicm_at_128 dicm128_file = true /\
  (exists t, read_meta [] [] dicm128_file = Ok (t, []) /\ meta_eqb t dicm128_table = true) /\
  open_by_path [] [] PAuto dicm128_file = Err e_decode_elem /\
  open_by_reader [] [] PAuto dicm128_file = Err e_decode_elem.
Proof. exact dicm128_refutes. Qed.

(** The documented asymmetry when detection fails, and the explicit options. *)
Theorem C09_preamble_asymmetry : forall buf, detect_preamble buf = Ok PAuto ->
  skip_by_path PAuto buf = Ok 128 /\ skip_by_reader PAuto buf = Ok 0.
Proof. exact auto_asymmetry. Qed.

(** Totality of the meta group reader over ARBITRARY bytes (requested by C05).
    [read_meta] transcribes every branch of FileMetaTable::read_from; its loop runs on fuel
    [S (length input)] (each iteration consumes at least the 8 header bytes).
    (a) in any build the reader returns a value or an error: never a panic, and the fuel is never
        exhausted (error class 99), so the loop ends within [length input / 8 + 1] iterations;
    (b) the only panic sites reachable from read_from are the overflow checks of debug builds in
        calculate_information_group_length ([x.len() as u32 + 1], the chain of u32 additions), modelled
        by [read_meta_dbg]: they cannot fire for inputs below 512 MiB (every field is a disjoint slice of
        the input, at most 4 UTF-8 bytes per input byte); in release builds they wrap and (a) applies;
    (c) preamble detection and both openers (up to the end of the meta group) never panic either. *)
Theorem C09_read_total : forall iu inm b,
  (forall w, read_meta iu inm b <> Panic w) /\ read_meta iu inm b <> Err 99.
Proof. exact read_meta_total. Qed.
Theorem C09_read_total_debug : forall iu inm b w,
  blen b < 536870912 -> slen iu + slen inm < 1073741824 -> read_meta_dbg iu inm b <> Panic w.
Proof. exact read_meta_dbg_no_panic. Qed.
Theorem C09_open_total : forall (iu inm : str) (opt : preamble) (file : bytes) (w : N),
  (forall buf, detect_preamble buf <> Panic w) /\
  open_by_path iu inm opt file <> Panic w /\ open_by_reader iu inm opt file <> Panic w.
Proof.
  intros iu inm opt file w. destruct skip_no_panic as [Hp Hr]. split; [intros buf; apply detect_preamble_no_panic|].
  split; apply open_with_no_panic; assumption.
Qed.

(** Non-vacuity: a built table with an odd-length UID, an optional title and private information,
    after a history with a failing and several successful operations, meets every hypothesis. *)
Definition ex_builder : builder :=
  mk_builder (Some (0, 1)) [Some [49;46;50]; Some [49;46;50;46;51;46;52]; Some [49;46;50;46;56]; Some [49;46;50;46;51]]
             [Some [65;66;67]; None; Some [83]; None; None] (Some [1; 2; 3]).
Definition ex_ops : list mop :=
  [(STag T_TS, ASetStr [49;46;50;46;56;52;48]); (STag T_SOP_CLASS, ARemove); (STag T_SRC_AE, ASetStr [88;89;90]);
   (STag T_SND_AE, ARemove); (SNested, AEmpty); (STag T_IMPL_VER, AEmpty)].
Example C09_nonvacuous :
  exists t0 b, build [50;46;50;53] [68;82] ex_builder = Ok t0 /\
    ascii_table (apply_all ex_ops t0) = true /\ write_meta (apply_all ex_ops t0) = Ok b /\
    m_glen (apply_all ex_ops t0) = 108 /\ blen b = 120.
Proof. eexists. eexists. split; [reflexivity|]. split; [reflexivity|]. split; [vm_compute; reflexivity|]. split; vm_compute; reflexivity. Qed.

Check C09_group_length : forall iu inm bd t0 ops b,
  build iu inm bd = Ok t0 ->
  let t := apply_all ops t0 in
  ascii_table t = true -> small t -> write_meta t = Ok b ->
  m_glen t = blen (skipn 12 b).
Check C09_roundtrip : forall iu inm bd t0 ops b tail,
  build iu inm bd = Ok t0 ->
  let t := apply_all ops t0 in
  ascii_table t = true -> small t -> write_meta t = Ok b ->
  exists t', read_meta iu inm (DICM ++ b ++ tail) = Ok (t', tail) /\ meta_eqb t' t = true.
Check C09_preamble_present : forall iu inm pre rest,
  length pre = 128%nat ->
  open_by_path iu inm PAuto (pre ++ DICM ++ rest) = read_meta iu inm (DICM ++ rest) /\
  open_by_reader iu inm PAuto (pre ++ DICM ++ rest) = read_meta iu inm (DICM ++ rest).
Check C09_preamble_absent_outside_known : forall iu inm rest,
  dicm_at_128 (DICM ++ rest) = false ->
  open_by_path iu inm PAuto (DICM ++ rest) = read_meta iu inm (DICM ++ rest) /\
  open_by_reader iu inm PAuto (DICM ++ rest) = read_meta iu inm (DICM ++ rest).
Check C09_read_total : forall iu inm b,
  (forall w, read_meta iu inm b <> Panic w) /\ read_meta iu inm b <> Err 99.
Print Assumptions C09_read_total.
Print Assumptions C09_read_total_debug.
Print Assumptions C09_open_total.
Print Assumptions C09_invariant.
Print Assumptions C09_failed_op_unchanged.
Print Assumptions C09_ok_op_updates.
Print Assumptions C09_group_length.
Print Assumptions C09_roundtrip.
Print Assumptions C09_group_length_any.
Print Assumptions C09_non_ascii_remark.
Print Assumptions C09_preamble_present.
Print Assumptions C09_preamble_absent_outside_known.
Print Assumptions C09_preamble_refuted.
Print Assumptions C09_preamble_asymmetry.
