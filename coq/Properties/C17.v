(** C17 — Person names round-trip between text and components.
    Statements only; proofs are in Proofs/PersonNameP.v. *)
From DicomV Require Import Base.Str Model.PersonName Proofs.PersonNameP.

(** A name whose components contain no '^' and no leading/trailing white space
    prints to text that parses back to the same components ([Some ""] and an
    absent component are the same text, hence [norm]). *)
Theorem C17_rt : forall p, clean p = true -> from_text (to_dicom_string p) = norm p.
Proof. exact from_text_to_dicom_string. Qed.

(** [norm] changes nothing when no component is the empty string. *)
Theorem C17_rt_exact : forall p,
  clean p = true -> ~ In (Some []) (components p) -> from_text (to_dicom_string p) = p.
Proof.
  intros p Hc Hne. rewrite from_text_to_dicom_string by exact Hc.
  destruct p as [a b c d e]; unfold norm; cbn in *.
  destruct a as [[|]|], b as [[|]|], c as [[|]|], d as [[|]|], e as [[|]|]; cbn; try reflexivity;
    exfalso; apply Hne; tauto.
Qed.

(** Trailing absent components are omitted, leading ones kept as separators. *)
Theorem C17_leading_kept : forall s,
  to_dicom_string {| family := None; given := None; middle := None; prefix := None; suffix := Some s |}
  = [caret; caret; caret; caret] ++ s.
Proof. exact to_dicom_string_only_suffix. Qed.
Theorem C17_trailing_omitted : forall s,
  to_dicom_string {| family := Some s; given := None; middle := None; prefix := None; suffix := None |} = s.
Proof. exact to_dicom_string_only_family. Qed.

(** Non-vacuity: a concrete five-component name meets the hypothesis. *)
Example C17_nonvacuous :
  clean {| family := Some [65;100]; given := Some [74]; middle := None; prefix := Some [68;114;46]; suffix := None |} = true.
Proof. reflexivity. Qed.

Check C17_rt : forall p, clean p = true -> from_text (to_dicom_string p) = norm p.
Check C17_rt_exact : forall p,
  clean p = true -> ~ In (Some []) (components p) -> from_text (to_dicom_string p) = p.
Print Assumptions C17_rt.
Print Assumptions C17_rt_exact.
Print Assumptions C17_leading_kept.
Print Assumptions C17_trailing_omitted.
