(** C27 — PDU reception is independent of how the byte stream is segmented.
    Statements only; proofs in Proofs/WireP.v.  [receive] (Model/Wire.v) is the loop of
    ul/src/association/mod.rs read_pdu_from_wire and read_pdu_from_wire_async (the two
    functions are the same loop; the transport is the list of chunks its reads deliver). *)
From DicomV Require Import Base.Prelude Model.Pdu Model.Wire Proofs.WireP.

(** For ANY sequence of well-formed PDUs and ANY segmentation of their concatenated
    encodings into non-empty chunks (several PDUs per chunk, a PDU over many chunks,
    one-byte chunks ...), receiving [length pdus] times on a fresh connection returns
    exactly these PDUs in order; the read buffer ends empty and nothing is left over. *)
Theorem C27_any_segmentation : forall max strict pdus encs chunks,
  max_ok max = true ->
  Forall (fun p => wf_pdu p = true) pdus ->
  Forall2 (fun p e => write_pdu p = Ok e) pdus encs ->
  (strict = false \/ Forall (fun e => len e - 6 <= max) encs) ->
  Forall nonempty chunks ->
  concat chunks = concat encs ->
  exists chunks',
    receive_n max strict (length pdus) [] chunks = (map Ok pdus, [], chunks') /\ concat chunks' = [].
Proof. exact receive_all. Qed.

(** The invariant behind it, at any point of a connection: if read buffer ++ transport =
    the encodings of [pdus] followed by [tail], then [length pdus] receives return [pdus]
    and leave read buffer ++ transport = [tail] (nothing lost, nothing duplicated). *)
Theorem C27_invariant : forall max strict pdus encs chunks buf tail,
  max_ok max = true ->
  Forall (fun p => wf_pdu p = true) pdus ->
  Forall2 (fun p e => write_pdu p = Ok e) pdus encs ->
  (strict = false \/ Forall (fun e => len e - 6 <= max) encs) ->
  Forall nonempty chunks ->
  buf ++ concat chunks = concat encs ++ tail ->
  exists buf' chunks',
    receive_n max strict (length pdus) buf chunks = (map Ok pdus, buf', chunks')
    /\ buf' ++ concat chunks' = tail.
Proof. intros. eapply receive_n_segmentation; eassumption. Qed.

(** After the last PDU the receiver reports "connection closed". *)
Theorem C27_then_closed : forall max strict,
  max_ok max = true -> receive max strict [] [] = (Err E_Closed, [], []).
Proof. exact receive_closed. Qed.

(** Non-vacuity: two PDUs (A-RELEASE-RQ, A-ABORT), cut into 1-byte, 13-byte and 6-byte chunks. *)
Example C27_nonvacuous :
  let pdus := [ReleaseRQ; AbortRQ (AbServiceProvider AbUnexpectedPdu)] in
  let chunks := [[5]; [0;0;0;0;4;0;0;0;0;7;0;0;0]; [0;4;0;0;2;2]] in
  Forall2 (fun p e => write_pdu p = Ok e) pdus [[5;0;0;0;0;4;0;0;0;0]; [7;0;0;0;0;4;0;0;2;2]]
  /\ concat chunks = concat [[5;0;0;0;0;4;0;0;0;0]; [7;0;0;0;0;4;0;0;2;2]]
  /\ receive_n 16378 false 2 [] chunks = (map Ok pdus, [], []).
Proof. repeat split; repeat constructor. Qed.

Check C27_any_segmentation : forall max strict pdus encs chunks,
  max_ok max = true ->
  Forall (fun p => wf_pdu p = true) pdus ->
  Forall2 (fun p e => write_pdu p = Ok e) pdus encs ->
  (strict = false \/ Forall (fun e => len e - 6 <= max) encs) ->
  Forall nonempty chunks ->
  concat chunks = concat encs ->
  exists chunks',
    receive_n max strict (length pdus) [] chunks = (map Ok pdus, [], chunks') /\ concat chunks' = [].
Print Assumptions C27_any_segmentation.
Print Assumptions C27_invariant.
Print Assumptions C27_then_closed.
