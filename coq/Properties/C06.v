(** C06 — Lazy reader and collector agree with the eager reader.
    Statements only; model in Model/LazyCollector.v, proofs in Proofs/LazyCollectorP.v.
    Everything is stated over the token stream [tokens_of_obj ulen plen raw_of es] of an arbitrary
    data set [es] (any nesting depth; [ulen], [plen], [raw_of]: the lengths recorded in the stream and
    the raw bytes of values are arbitrary), for both byte orders ([big]).
    Hypotheses on [es]: [wfo] = tags strictly increasing at every depth; [kind_ok] = sequences have
    VR SQ, pixel fragments sit in (7FE0,0010) OB; [words_ok] = offset table entries fit 32 bits. *)
From DicomV Require Import Base.Prelude Model.Ops Model.LazyCollector Proofs.OpsP Proofs.LazyCollectorP.
Open Scope N_scope.

(** Lazy reader vs eager reader, at the level of the model: the lazy view of the eager token stream
    of a data set is its lazy token stream, and owning every lazy token gives back the eager stream,
    the offset table being identified with the item value holding its 32-bit words.
    (partial: that the REAL lazy reader produces [lazy_view] of the REAL eager stream is tested on
    every generated file by the correspondence check, not proved: the byte-level state machines
    belong to C01/C05.) *)
Theorem C06_lazy_eq_eager_partial : forall big ulen plen raw_of es last,
  lazy_view big last (tokens_of_obj ulen plen raw_of es) = ltokens_of_obj ulen plen raw_of big es /\
  map own (ltokens_of_obj ulen plen raw_of big es) = map (as_item_values big) (tokens_of_obj ulen plen raw_of es).
Proof. intros. split; [apply lazy_view_obj|apply own_ltokens_of_obj]. Qed.

(** Opening the whole data set yields its elements. *)
Theorem C06_whole : forall ulen plen raw_of es, wfo es = true -> kind_ok es = true ->
  open_whole None None (tokens_of_obj ulen plen raw_of es) = Ok es.
Proof. intros. apply open_all; assumption. Qed.

(** The collector: reading the data set in portions split at ANY list of tags (in any order, present
    or not), then to the end, accumulates exactly the elements of the whole data set — including
    encapsulated pixel data with an empty offset table and zero-length fragments. *)
Theorem C06_collector_whole : forall big ulen plen raw_of splits es st last,
  wfo es = true -> kind_ok es = true -> words_ok es = true ->
  exists parts,
    run_splits big splits (st, lazy_view big last (tokens_of_obj ulen plen raw_of es)) [] [] = Ok (parts, es) /\
    open_whole None None (tokens_of_obj ulen plen raw_of es) = Ok es.
Proof.
  intros big ulen plen raw_of splits es st last Hw Hk Hwo.
  rewrite lazy_view_obj.
  destruct (run_splits_all big ulen plen raw_of splits es st [] [] (celems_ok es Hw Hk Hwo)) as [parts E].
  exists parts. split; [|apply open_all; assumption].
  rewrite E. rewrite fold_put_sorted_nil by (apply wfo_sorted, Hw). reflexivity.
Qed.

(** One portion: the elements below the stop tag, the rest of the stream is left for the next call. *)
Theorem C06_collector_portion : forall big ulen plen raw_of stop es st o,
  wfo es = true -> kind_ok es = true -> words_ok es = true ->
  exists st', read_up_to big stop (st, ltokens_of_obj ulen plen raw_of big es) o
    = Ok ((st', ltokens_of_obj ulen plen raw_of big (drop_while (nostop stop None) es)),
          fold_left put (take_while (nostop stop None) es) o).
Proof. intros. apply read_up_to_prefix, celems_ok; assumption. Qed.

(** Fragments retrieved one by one, and the basic offset table retrieved separately, are those of the
    data set, also when the offset table is empty and when fragments have length zero
    ([before]: the elements preceding Pixel Data; no token in them looks like the start of pixel data). *)
Theorem C06_fragments : forall big ulen plen raw_of before bot frags,
  no_pixel_start (ltokens_of_obj ulen plen raw_of big before) = true ->
  forallb (fun x => x <? 4294967296) bot = true ->
  run_fragments big true (ltokens_of_obj ulen plen raw_of big (before ++ [pix_elem bot frags]))
    = Ok (Some (Some (4 * N.of_nat (length bot), bot)), map (fun f => (LazyCollector.blen f, f)) frags) /\
  run_fragments big false (ltokens_of_obj ulen plen raw_of big (before ++ [pix_elem bot frags]))
    = Ok (None, (4 * N.of_nat (length bot), words_bytes big bot) :: map (fun f => (LazyCollector.blen f, f)) frags).
Proof. intros. split; [apply fragments_bot_first; assumption|apply fragments_plain; assumption]. Qed.

(** Native pixel data is one fragment; there is no offset table. *)
Theorem C06_fragments_native : forall big ulen plen raw_of before vr p,
  no_pixel_start (ltokens_of_obj ulen plen raw_of big before) = true -> plen p <> 4294967295 ->
  run_fragments big false (ltokens_of_obj ulen plen raw_of big (before ++ [(T_PIXEL, vr, VPrim p)])) = Ok (None, [(plen p, raw_of p)]) /\
  run_fragments big true (ltokens_of_obj ulen plen raw_of big (before ++ [(T_PIXEL, vr, VPrim p)])) = Ok (Some None, []).
Proof. intros. apply fragments_native; assumption. Qed.

(** read_until / read_to (OpenFileOptions): exactly the top-level elements with tag below the
    read_until tag and up to the read_to tag. *)
Theorem C06_read_until_to : forall ulen plen raw_of until to es, wfo es = true -> kind_ok es = true ->
  open_whole until to (tokens_of_obj ulen plen raw_of es)
  = Ok (filter (fun e => negb (stops until to (e_tag e))) es).
Proof. intros. apply open_filter; assumption. Qed.
Theorem C06_stops_meaning : forall until to t,
  stops until to t = false <->
  (match until with Some u => t < u | None => True end) /\ (match to with Some u => t <= u | None => True end).
Proof. intros [u|] [v|] t; unfold stops; cbn; lia. Qed.

(** Non-vacuity: a data set with a nested sequence (one empty item), a string, and encapsulated pixel
    data with an EMPTY offset table and a ZERO-LENGTH fragment meets the hypotheses; split at three tags. *)
Definition ex_es : obj :=
  [(528704, VR_SQ, VSeq [[(1048592, 20558, VPrim (PStr [65]))]; []]);
   (1048592, 20558, VPrim (PStr [65; 94; 66]));
   pix_elem [] [[1; 2]; []; [3; 4; 5; 6]]].
Example C06_nonvacuous :
  wfo ex_es = true /\ kind_ok ex_es = true /\ words_ok ex_es = true /\
  (exists parts, run_splits false [1048592; 5; 2145386512] (SMeta, lazy_view false (0, 0, 0) (tokens_of_obj 4294967295 (fun _ => 2) (fun _ => []) ex_es)) [] []
                 = Ok (parts, ex_es)) /\
  run_fragments false true (ltokens_of_obj 4294967295 (fun _ => 2) (fun _ => []) false ex_es)
    = Ok (Some (Some (0, [])), [(2, [1; 2]); (0, []); (4, [3; 4; 5; 6])]).
Proof. repeat split; try (eexists; vm_compute; reflexivity); vm_compute; reflexivity. Qed.

Check C06_collector_whole : forall big ulen plen raw_of splits es st last,
  wfo es = true -> kind_ok es = true -> words_ok es = true ->
  exists parts,
    run_splits big splits (st, lazy_view big last (tokens_of_obj ulen plen raw_of es)) [] [] = Ok (parts, es) /\
    open_whole None None (tokens_of_obj ulen plen raw_of es) = Ok es.
Check C06_fragments : forall big ulen plen raw_of before bot frags,
  no_pixel_start (ltokens_of_obj ulen plen raw_of big before) = true ->
  forallb (fun x => x <? 4294967296) bot = true ->
  run_fragments big true (ltokens_of_obj ulen plen raw_of big (before ++ [pix_elem bot frags]))
    = Ok (Some (Some (4 * N.of_nat (length bot), bot)), map (fun f => (LazyCollector.blen f, f)) frags) /\
  run_fragments big false (ltokens_of_obj ulen plen raw_of big (before ++ [pix_elem bot frags]))
    = Ok (None, (4 * N.of_nat (length bot), words_bytes big bot) :: map (fun f => (LazyCollector.blen f, f)) frags).
Check C06_read_until_to : forall ulen plen raw_of until to es, wfo es = true -> kind_ok es = true ->
  open_whole until to (tokens_of_obj ulen plen raw_of es)
  = Ok (filter (fun e => negb (stops until to (e_tag e))) es).
Print Assumptions C06_lazy_eq_eager_partial.
Print Assumptions C06_whole.
Print Assumptions C06_collector_whole.
Print Assumptions C06_collector_portion.
Print Assumptions C06_fragments.
Print Assumptions C06_fragments_native.
Print Assumptions C06_read_until_to.
Print Assumptions C06_stops_meaning.
