(** C05 — Untrusted input never makes a reader panic, abort or hang.  (PARTIAL)

    Full statement (property text): for ANY byte sequence every public reading
    entry point returns a value or an error in bounded time and never panics
    or aborts (file opening, file meta, eager / lazy / collector readers in
    every transfer syntax incl. flexible VR detection, DICOM JSON
    deserialisation, PDU decoding, pixel data decoding, dumping; textual tags,
    selectors, dates, times, date-times).

    What is PROVED here, for all inputs, over the executable models of the
    parsers that are modelled with explicit [Panic] outcomes and explicit fuel:
      - textual tags, attribute selectors, tag ranges (Model/TagText.v, after fix 802bc14)
      - dates, times, date-times and ranges (Model/DateTime.v)
      - DICOM JSON values/text  (Model/Json.v,     after fix 0bd6776)
      - RLE Lossless fragments  (Model/Rle.v,      after fix 52b40dc)
      - PDU decoding            (Model/Pdu.v; also stated as C25_read_total)
      - the eager data set reader's step function terminates on every byte
        stream (Model/ValueRead.v: the `continue` loop never exhausts the fuel
        given by the stream length) and every value reader is total
    Each theorem below is the totality theorem of the named model, restated.
    What is NOT proved (only exercised by the release-build fuzzing harness
    harness/g_fuzz with catch_unwind, a per-case watchdog and a child process
    per batch): file opening / preamble logic, file meta reader, lazy reader,
    collector, JPEG / deflate / JPEG-LS / J2K / JXL decoders,
    multi-byte text decoders, serde_json's text layer, dump (file meta reader totality:
    C09_read_total, when present). Known finding (KNOWN_FINDINGS.txt, class
    prealloc-declared-length): value readers allocate the declared value
    length before reading, up to 4 GiB for a 12-byte input. *)
From DicomV Require Import Base.Prelude.
From DicomV Require Base.RustStr Proofs.RustStrP Model.TagText Proofs.TagTextP Proofs.TagTotalP.
From DicomV Require Model.Json Proofs.JsonTotalP.
From DicomV Require Model.Rle Proofs.RleTotalP.
From DicomV Require Base.Endian Model.ValueRead Proofs.ValueReadP.
From DicomV Require Model.Pdu Proofs.PduTotalP.
From DicomV Require Model.DateTime Proofs.DateTimeTotalP.
(* the four models define clashing short names ([len], [E_custom], ...): nothing is imported,
   every identifier below is qualified by its model *)

(** [Tag::from_str] on the UTF-8 encoding of ANY sequence of scalar values. *)
Theorem C05_tag_text_total : forall (cps : str) w,
  TagText.tag_from_str (RustStr.utf8 cps) <> Panic w.
Proof. intros cps w. apply TagTextP.tag_from_str_no_panic. apply RustStrP.utf8_ascii_sync. Qed.

(** Attribute selectors (release build: the only panic of the model is a debug assertion, see
    C14_selector_panic_only_debug), tag ranges "(60xx,3000)" and VR codes, on ANY string. *)
Theorem C05_selector_total : forall by_name (cps : str) w,
  TagText.parse_selector by_name false (RustStr.utf8 cps) <> Panic w.
Proof. intros. apply TagTotalP.parse_selector_release_total, RustStrP.utf8_ascii_sync. Qed.
Theorem C05_tag_range_total : forall (cps : str) w,
  TagText.tag_range_from_str (RustStr.utf8 cps) <> Panic w.
Proof. intros. apply TagTotalP.tag_range_no_panic, RustStrP.utf8_ascii_sync. Qed.

(** Dates, times, date-times and their ranges from ANY byte string (every slice, unwrap and
    u32 product of deserialize.rs / range.rs / partial.rs is an explicit [Panic] in the model). *)
Theorem C05_datetime_total : forall (s : bytes) (w : N),
  DateTime.parse_date_partial s <> Panic w /\ DateTime.parse_time_partial s <> Panic w
  /\ DateTime.parse_datetime_partial s <> Panic w
  /\ DateTime.parse_date s <> Panic w /\ DateTime.parse_time s <> Panic w
  /\ DateTime.parse_date_range s <> Panic w /\ DateTime.parse_time_range s <> Panic w
  /\ (forall mode, DateTime.parse_datetime_range mode s <> Panic w).
Proof.
  intros s w. repeat split.
  - apply DateTimeTotalP.parse_date_partial_np. - apply DateTimeTotalP.parse_time_partial_np.
  - apply DateTimeTotalP.parse_datetime_partial_np.
  - apply DateTimeTotalP.parse_date_np. - apply DateTimeTotalP.parse_time_np.
  - apply DateTimeTotalP.parse_date_range_np. - apply DateTimeTotalP.parse_time_range_np.
  - intros mode. apply DateTimeTotalP.parse_datetime_range_np.
Qed.

(** [dicom_json::from_value] on ANY JSON value, and [from_str] on any syntactically valid
    JSON text (documents may repeat keys), for any float<->text functions [X]. *)
Theorem C05_json_total : forall X j w, Json.de X j <> Panic w.
Proof. exact JsonTotalP.de_never_panics. Qed.
Theorem C05_json_text_total : forall X j w, Json.de_text X j <> Panic w.
Proof. exact JsonTotalP.de_text_never_panics. Qed.

(** RLE Lossless [decode] / [decode_frame] on ANY image attributes and ANY fragment bytes. *)
Theorem C05_rle_total : forall o, is_panic (Rle.decode o) = false.
Proof. exact RleTotalP.decode_np. Qed.
Theorem C05_rle_frame_total : forall o f, is_panic (Rle.decode_frame o f) = false.
Proof. exact RleTotalP.decode_frame_np. Qed.
(** Non-vacuity: a 3-byte fragment (shorter than the 64-byte header) is an error, not a panic. *)
Example C05_rle_short_fragment :
  Rle.decode_frame {| Rle.o_rows := 1; Rle.o_cols := 1; Rle.o_spp := 1; Rle.o_bits := 8;
                      Rle.o_frags := [[1; 0; 0]] |} 0 = Err Rle.E_custom.
Proof. reflexivity. Qed.

(** Bounded time for the eager data set reader: one call of [DataSetReader::next] on ANY byte
    stream finishes within the fuel given by the stream length (the `continue` loop on stray
    delimiters always makes progress). *)
Theorem C05_eager_next_terminates : forall dict rejects kind strat odd st,
  ValueRead.next dict rejects (ValueRead.next_fuel st) kind strat odd st <> ValueRead.NFuel.
Proof. intros. apply ValueReadP.next_no_fuel. unfold ValueRead.next_fuel. apply Nat.lt_succ_diag_r. Qed.

(** [read_pdu] on ANY byte buffer (every element a byte), any maximum length, strict or not:
    every unguarded [Buf] read of reader.rs is an explicit [Panic] in the model, none is reachable. *)
Theorem C05_pdu_total : forall max strict b w,
  Endian.wf_bytes b -> Pdu.read_pdu max strict b <> Panic w.
Proof. intros max strict b w H. apply PduTotalP.read_pdu_total. exact H. Qed.

Check C05_tag_text_total : forall (cps : str) w, TagText.tag_from_str (RustStr.utf8 cps) <> Panic w.
Check C05_json_total : forall X j w, Json.de X j <> Panic w.
Check C05_rle_total : forall o, is_panic (Rle.decode o) = false.
Print Assumptions C05_tag_text_total.
Print Assumptions C05_json_total.
Print Assumptions C05_json_text_total.
Print Assumptions C05_rle_total.
Print Assumptions C05_rle_frame_total.
Print Assumptions C05_eager_next_terminates.
Print Assumptions C05_pdu_total.
Print Assumptions C05_selector_total.
Print Assumptions C05_tag_range_total.
Print Assumptions C05_datetime_total.
