(** C01 — Data set write-then-read round trip. Statements only.
    [write_dataset], [read_dataset] are the models of
    InMemDicomObject::write_dataset_with_ts(_options) / read_dataset_with_ts
    (token generation, DataSetWriter + StatefulEncoder, DataSetReader +
    StatefulDecoder, build_object); [norm_elem] describes the documented
    normalisations. *)
From Coq Require Import Sorting.Sorted.
From DicomV Require Import Base.Endian Model.Vr Model.Header Model.Prim Model.Dataset Model.Writer Model.Reader
  Spec.Ps35 Proofs.HeaderP Proofs.PrimP Proofs.WriterP Proofs.ValidP Proofs.FlatP Proofs.ValueP Proofs.ReaderP
  Proofs.RoundTripP Proofs.TotalP Proofs.NestedP Proofs.ReadStepsP Proofs.ReadTreeP Proofs.BuildTreeP
  Proofs.RoundTripTreeP Proofs.NestedGP Proofs.ReadTreeGP Proofs.BuildTreeGP Proofs.RoundTripGP.
Open Scope N_scope.

(** Full statement (kept visible): every well-formed data set, of any nesting,
    in each of the four transfer syntaxes and both strategies, is written
    without error or panic and reads back as its normalisation. *)
Definition C01_roundtrip_full_statement : Prop :=
  forall (wf_dataset : codec -> bool -> dict_t -> list elem -> Prop)
         (normalise : codec -> bool -> dict_t -> list elem -> list elem)
         c nochange inv d es,
    wf_dataset c nochange d es ->
    exists b, write_dataset c nochange inv es = Ok b /\ read_dataset c d b = Ok (normalise c nochange d es).

(** Proved part 1 (flat data sets: any number of primitive elements of any VR
    with VR-typed values, ascending unique tags, any codec, both strategies,
    either charset flag): whatever the writer produces reads back as the
    element-wise normalisation: the VR the reader assigns (dictionary VR in
    implicit VR), the even length written, and the value decoded from the
    padded bytes. *)
Theorem C01_roundtrip_flat : forall c nochange inv d is_sq es b,
  Forall (elem_ok c is_sq) es -> Forall (rt_ok c d) es ->
  StronglySorted tag_lt (map elem_tag es) ->
  write_dataset c nochange inv es = Ok b ->
  read_dataset c d b = Ok (map (norm_elem c d) es).
Proof. exact roundtrip_flat. Qed.

(** Proved part 2: writing such a data set never fails and never panics
    ([elem_writable]: VR-typed value, ISO 8859-1 text, printable dates, value
    shorter than 2^32-1 bytes and fitting the 16-bit length field where the VR
    has one; DS/IS not given as floats (float formatting is not modelled)). *)
Theorem C01_write_total_flat : forall c nochange inv es,
  Forall (elem_writable c) es -> exists b, write_dataset c nochange inv es = Ok b.
Proof. exact write_flat_total. Qed.

(** Both parts together, in the shape of the full statement. *)
Theorem C01_flat : forall c nochange inv d is_sq es,
  Forall (elem_writable c) es -> Forall (elem_ok c is_sq) es -> Forall (rt_ok c d) es ->
  StronglySorted tag_lt (map elem_tag es) ->
  exists b, write_dataset c nochange inv es = Ok b /\ read_dataset c d b = Ok (map (norm_elem c d) es).
Proof.
  intros c nc inv d is_sq es Hw H1 H2 S. destruct (write_flat_total c nc inv es Hw) as [b E].
  exists b. split; [exact E | exact (roundtrip_flat c nc inv d is_sq es b H1 H2 S E)].
Qed.

(** Proved part 3 (the strongest): data sets with NESTED SEQUENCES AND ITEMS OF
    ANY DEPTH and ENCAPSULATED PIXEL DATA (offset table and fragments, also
    zero-length ones), written with the default strategy (every sequence and
    item gets an undefined length and its delimiter), in every codec: whatever
    the writer produces is read back as the normalised data set [norm_tree]
    (primitive elements as in the flat case, recorded sequence/item lengths
    replaced by "undefined", fragments padded to even length). Proof: writer =
    direct recursive encoding (Proofs/NestedP.v), reader state machine over
    that encoding with the delimiter-stack invariant (ReadStepsP, ReadPixP,
    ReadTreeP: mutual structural induction over elements / element lists / item
    lists), object building incl. sorted insertion (BuildTreeP).
    [readable]: primitive elements as in the flat theorem; sequence tags are
    not in group FFFE and not Pixel Data; element lists of items have ascending tags;
    offset-table entries are 32-bit, fragments shorter than 2^32-2 bytes.
    [delim_ok]: in implicit VR the dictionary does not call the item delimiter
    tag a sequence (trivially true in explicit VR). *)
Theorem C01_roundtrip_undefined_nesting : forall c d es b,
  delim_ok c d -> Forall (readable c d) es -> StronglySorted tag_lt (map elem_tag es) ->
  write_dataset c false false es = Ok b ->
  read_dataset c d b = Ok (map (norm_tree c d) es).
Proof. exact roundtrip_tree. Qed.

(** ... and writing such a data set never fails or panics. *)
Theorem C01_write_total_nested : forall c es,
  Forall (writable c) es -> Forall regular es -> exists b, write_dataset c false false es = Ok b.
Proof. exact write_tree_total. Qed.

Theorem C01_nested : forall c d es,
  delim_ok c d -> Forall (writable c) es -> Forall (readable c d) es ->
  StronglySorted tag_lt (map elem_tag es) ->
  exists b, write_dataset c false false es = Ok b /\ read_dataset c d b = Ok (map (norm_tree c d) es).
Proof.
  intros c d es Hd W R S.
  assert (Rg : Forall regular es) by (eapply Forall_impl; [apply (readable_regular c d) | exact R]).
  destruct (write_tree_total c es W Rg) as [b E]. exists b. split; [exact E | exact (roundtrip_tree c d es b Hd R S E)].
Qed.

(** Proved part 4 (the most general): BOTH strategies, DEFINED LENGTHS included.
    [wl nochange l] is the length written for a recorded length [l]: [l] itself
    under NoChange, "undefined" under SetUndefined. For nested data sets of any
    depth (and encapsulated pixel data) in which every written length that is
    defined equals the actual length of the content it announces ([readable_g];
    automatically true under SetUndefined), whatever the writer produces is
    read back as [norm_tree_g]: the same data set with the written lengths
    recorded. The reader finds the ends of defined-length items and sequences
    through [update_seq_delimiters] (position = base offset + length), cascades
    of simultaneous ends and zero-length items/sequences included: the proof
    (Proofs/ReadStepsGP.v, ReadPixGP.v, ReadTreeGP.v, BuildTreeGP.v) carries the
    decoder position and the delimiter_check_pending flag through every step. *)
Theorem C01_roundtrip_nesting : forall c d nochange es b,
  delim_ok c d -> Forall (readable_g c d nochange) es -> StronglySorted tag_lt (map elem_tag es) ->
  write_dataset c nochange false es = Ok b ->
  read_dataset c d b = Ok (map (norm_tree_g c d nochange) es).
Proof. exact roundtrip_tree_g. Qed.

(** The writer for either strategy is the direct recursive encoding in terms of the written lengths. *)
Theorem C01_write_nested_both : forall c nochange es,
  Forall regular es -> write_dataset c nochange false es = enc_trees_g (elems_size es) c nochange es.
Proof. exact write_dataset_nested_g. Qed.

(** Non-vacuity for NoChange with defined lengths: a sequence of recorded length
    18 with one item of recorded length 10 holding a US element, followed by a
    sequence of recorded length 0 (Explicit VR LE). *)
Definition C01_example_defined : list elem :=
  [ ESeq (8, 4416) SQ 18 [(10, [EPrim (40, 16) US 2 (PU16 [512])])];
    ESeq (64, 629) SQ 0 [] ].

Example C01_defined_nonvacuous :
  let d : dict_t := fun _ => None in
  delim_ok ELE d /\ Forall (readable_g ELE d true) C01_example_defined
  /\ StronglySorted tag_lt (map elem_tag C01_example_defined)
  /\ exists b, write_dataset ELE true false C01_example_defined = Ok b
               /\ read_dataset ELE d b = Ok (map (norm_tree_g ELE d true) C01_example_defined).
Proof.
  cbv zeta.
  assert (R : Forall (readable_g ELE (fun _ => None) true) C01_example_defined).
  { unfold C01_example_defined. constructor; [|constructor; [|constructor]].
    - constructor; try (unfold wf_tag; cbn; lia); try discriminate.
      + right. cbn. split; [lia | reflexivity].
      + right. reflexivity.
      + intros f body E. destruct f as [|f]; [discriminate E|]. right. vm_compute in E. inversion E. reflexivity.
      + constructor; [|constructor]. cbn [fst snd]. split; [right; cbn; split; [lia | reflexivity]|].
        split; [intros f body E; destruct f as [|f]; [discriminate E|]; right; vm_compute in E; inversion E; reflexivity|].
        split; [|repeat constructor].
        constructor; [|constructor]. constructor.
        * unfold elem_ok, plain, wf_tag. cbn. repeat split; try reflexivity; try lia; try discriminate; intros; discriminate.
        * unfold rt_ok. cbn. split; [discriminate | reflexivity].
    - constructor; try (unfold wf_tag; cbn; lia); try discriminate.
      + right. cbn. split; [lia | reflexivity].
      + right. reflexivity.
      + intros f body E. right. vm_compute in E. inversion E. reflexivity.
      + constructor. }
  split; [reflexivity|]. split; [exact R|]. split; [repeat constructor; unfold tag_lt, tag_ltb; reflexivity|].
  eexists. split; [vm_compute; reflexivity|]. vm_compute. reflexivity.
Qed.

(** What remains of the full statement and is NOT proved: the charset-changed
    flag on nested data sets (its tokens force undefined lengths; correspondence
    and oracle only), and totality of writing under NoChange. *)

(** The normalisation of values, made explicit for the two big classes. *)
(** Binary words (US SS OW UL SL OL FL OF UV SV OV FD OD): exactly the numbers written. *)
Theorem C01_value_words : forall c k (l : list N) v (mk : list N -> prim),
  l <> [] -> Forall (fun n => n < 2 ^ (8 * N.of_nat k)) l -> (k = 2 \/ k = 4 \/ k = 8)%nat ->
  (forall raw, value_of_bytes c v raw = Ok (mk (dec_words c k (Nat.div (length raw) k) raw))) ->
  readback_prim c v (ps35_padded v (enc_words c k l)) = mk l.
Proof. exact readback_words. Qed.

(** Multi-valued text: the same components; only when the joined text has odd
    length the last component carries the pad byte (the trailing padding that
    [to_str] removes). *)
Theorem C01_value_text : forall c v l,
  l <> [] -> Forall no_sep l -> join_bs l <> [] ->
  In v [AE; AS; CS; DA; DS; DT; IS; LO; PN; SH; TM; UC; UI] ->
  readback_prim c v (ps35_padded v (raw_value c v (PStrs l)))
  = PStrs (if Nat.odd (length (join_bs l)) then pad_last (ps35_pad v) l else l).
Proof. exact readback_text. Qed.

Theorem C01_value_words_raw : forall c k l rest,
  Forall (fun n => n < 2 ^ (8 * N.of_nat k)) l ->
  dec_words c k (length l) (enc_words c k l ++ rest) = l.
Proof. exact dec_words_enc_words. Qed.

(** The writer on flat data sets is the concatenation of the element encodings
    (no state leaks between elements). *)
Theorem C01_write_flat : forall c nochange inv es,
  Forall plain es -> write_dataset c nochange inv es = enc_flat c es.
Proof. exact write_dataset_flat. Qed.

(** Nested data sets of any depth, default strategy: the writer half of the
    round trip (mutual structural induction over elements, element lists and
    item lists): the bytes are the direct recursive description [enc_trees]
    (undefined-length sequences and items closed by their delimiters, pixel
    fragments with explicit lengths). The reader half for nesting is not proved. *)
Theorem C01_write_nested_partial : forall c es,
  Forall regular es -> write_dataset c false false es = enc_trees (elems_size es) c es.
Proof. exact write_dataset_nested. Qed.

(** Deflated Explicit VR Little Endian: the data set stream is passed through
    the adapter; with the external round-trip property of the compressor as a
    named hypothesis, the round trip reduces to the Explicit VR LE one. *)
Section Deflate.
  Variable deflate inflate : bytes -> bytes.
  Hypothesis inflate_deflate : forall b, inflate (deflate b) = b.
  Definition write_deflated (nochange inv : bool) (es : list elem) : outcome bytes :=
    match write_dataset ELE nochange inv es with Ok b => Ok (deflate b) | Err e => Err e | Panic w => Panic w end.
  Definition read_deflated (d : dict_t) (b : bytes) : outcome (list elem) := read_dataset ELE d (inflate b).
  Theorem C01_roundtrip_flat_deflated : forall nochange inv d is_sq es b,
    Forall (elem_ok ELE is_sq) es -> Forall (rt_ok ELE d) es ->
    StronglySorted tag_lt (map elem_tag es) ->
    write_deflated nochange inv es = Ok b ->
    read_deflated d b = Ok (map (norm_elem ELE d) es).
  Proof.
    intros nc inv d is_sq es b H1 H2 S E. unfold write_deflated in E.
    destruct (write_dataset ELE nc inv es) as [b0|x|x] eqn:W; try discriminate.
    inversion E; subst b. unfold read_deflated. rewrite inflate_deflate.
    exact (roundtrip_flat ELE nc inv d is_sq es b0 H1 H2 S W).
  Qed.
End Deflate.

(** Non-vacuity: a flat data set with text, binary and empty values meets the
    hypotheses; its round trip computed by the models. *)
Example C01_nonvacuous :
  let es := [EPrim (16, 16) PN 0 (PStrs [[68; 111; 101]; [74]]); EPrim (40, 16) US 0 (PU16 [512; 7]); EPrim (40, 4112) OB 3 (PU8 [1; 2; 3])] in
  let d : dict_t := fun _ => None in
  match write_dataset EBE false false es with
  | Ok b => read_dataset EBE d b = Ok (map (norm_elem EBE d) es)
            /\ map (norm_elem EBE d) es =
               [EPrim (16, 16) PN 6 (PStrs [[68; 111; 101]; [74; 32]]); EPrim (40, 16) US 4 (PU16 [512; 7]); EPrim (40, 4112) OB 4 (PU8 [1; 2; 3; 0])]
  | _ => False
  end.
Proof. vm_compute. split; reflexivity. Qed.


(** Non-vacuity of the nested theorem: a data set with a sequence of two items
    (one holding a nested sequence with an empty item, one empty), and
    encapsulated pixel data with an empty offset table, a fragment and a
    zero-length fragment meets all hypotheses of [C01_nested]. *)
Definition C01_example_nested : list elem :=
  [ EPrim (16, 16) PN 0 (PStrs [[68; 111; 101]]);
    ESeq (64, 629) SQ 0
      [ (0, [EPrim (8, 256) SH 0 (PStrs [[65]]); ESeq (8, 4416) SQ 0 [(0, [])]]);
        (0, []) ];
    EPix pixel_tag OB undef [] [[1; 2]; []] ].

Ltac solve_side :=
  repeat (split || constructor); cbn;
  try reflexivity; try discriminate; try lia; try (intros; discriminate); try (intros; congruence);
  try (unfold tag_lt, tag_ltb; reflexivity).

Example C01_nested_nonvacuous :
  let d : dict_t := fun _ => None in
  delim_ok ELE d /\ Forall (writable ELE) C01_example_nested /\ Forall (readable ELE d) C01_example_nested
  /\ StronglySorted tag_lt (map elem_tag C01_example_nested).
Proof.
  cbv zeta. split; [reflexivity|]. split; [|split].
  - unfold C01_example_nested. repeat constructor; unfold elem_writable, plain, hdr_ok; solve_side.
  - unfold C01_example_nested. repeat constructor; unfold elem_ok, rt_ok, plain, wf_tag; solve_side.
  - unfold C01_example_nested. repeat constructor; unfold tag_lt, tag_ltb; reflexivity.
Qed.

Check C01_roundtrip_nesting : forall c d nochange es b,
  delim_ok c d -> Forall (readable_g c d nochange) es -> StronglySorted tag_lt (map elem_tag es) ->
  write_dataset c nochange false es = Ok b ->
  read_dataset c d b = Ok (map (norm_tree_g c d nochange) es).
Check C01_roundtrip_undefined_nesting : forall c d es b,
  delim_ok c d -> Forall (readable c d) es -> StronglySorted tag_lt (map elem_tag es) ->
  write_dataset c false false es = Ok b ->
  read_dataset c d b = Ok (map (norm_tree c d) es).
Check C01_roundtrip_flat : forall c nochange inv d is_sq es b,
  Forall (elem_ok c is_sq) es -> Forall (rt_ok c d) es ->
  StronglySorted tag_lt (map elem_tag es) ->
  write_dataset c nochange inv es = Ok b ->
  read_dataset c d b = Ok (map (norm_elem c d) es).
Print Assumptions C01_roundtrip_flat.
Print Assumptions C01_write_total_flat.
Print Assumptions C01_flat.
Print Assumptions C01_roundtrip_undefined_nesting.
Print Assumptions C01_write_total_nested.
Print Assumptions C01_nested.
Print Assumptions C01_roundtrip_nesting.
Print Assumptions C01_write_nested_both.
Print Assumptions C01_value_words.
Print Assumptions C01_value_text.
Print Assumptions C01_value_words_raw.
Print Assumptions C01_write_flat.
Print Assumptions C01_write_nested_partial.
Print Assumptions C01_roundtrip_flat_deflated.
