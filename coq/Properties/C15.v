(** C15 — The standard data dictionary answers consistently for every tag and keyword.
    Statements only; proofs are in Proofs/DictP.v. The tables ([ENTRIES], [TAG_CONSTS],
    [SOP_CLASSES]) are regenerated from /repo on every run (Gen/GenDict*.v, Gen/GenUids.v);
    [by_tag], [by_name], [sop_by_uid], [sop_by_keyword] are the model of
    dictionary-std/src/{data_element,sop_class}.rs (Model/Dict.v); [spec_lookup] is the
    precedence text of the property over the table alone (Spec/DictSpec.v). *)
From DicomV Require Import Model.Dict Spec.DictSpec Proofs.DictP.
Open Scope N_scope.

(** For every one of the 2^32 tags the indexed lookup returns what the table prescribes:
    the exact entry, else the covering repeating-group entry, else the covering
    repeating-element entry, else the private creator entry for (odd group, 0010-00FF),
    else the group length entry for element 0000, else nothing. *)
Theorem C15_lookup : forall g e, g < 65536 -> e < 65536 ->
  by_tag g e = spec_lookup ENTRIES GROUP_LENGTH_ENTRY PRIVATE_CREATOR_ENTRY g e.
Proof. exact by_tag_is_spec. Qed.

(** "the" entry is well defined: no two table rows answer the same question for a tag. *)
Theorem C15_unambiguous : unambiguous ENTRIES.
Proof. exact table_unambiguous. Qed.

(** Looking up the keyword of any entry (table rows and the two generic entries)
    returns that entry; and whatever string is looked up, an entry found carries it. *)
Theorem C15_by_name : forall en, In en (ENTRIES ++ [GROUP_LENGTH_ENTRY; PRIVATE_CREATOR_ENTRY]) ->
  by_name (e_alias en) = Some en.
Proof. exact by_name_row. Qed.
Theorem C15_by_name_keyword : forall s en, by_name s = Some en -> e_alias en = s.
Proof. exact by_name_keyword. Qed.

(** Every tag constant equals the tag of the entry carrying the constant's keyword,
    and every table row has its constant. *)
Theorem C15_constants : forall c, In c TAG_CONSTS ->
  exists en, by_name (c_alias c) = Some en /\ e_alias en = c_alias c /\ e_kind en = c_kind c /\ e_tag en = c_tag c.
Proof. exact const_is_entry_tag. Qed.
Theorem C15_constants_cover : forall en, In en ENTRIES ->
  exists c, In c TAG_CONSTS /\ c_alias c = e_alias en /\ c_kind c = e_kind en /\ c_tag c = e_tag en.
Proof. exact entry_has_const. Qed.

(** The SOP class dictionary maps each UID and each keyword of the table to the same entry,
    and any answer it gives is a table row consistent across both indexes. *)
Theorem C15_sop_class : forall u, In u SOP_CLASSES ->
  sop_by_uid (u_uid u) = Some u /\ sop_by_keyword (u_alias u) = Some u.
Proof. exact sop_row. Qed.
Theorem C15_sop_class_by_uid : forall s u, sop_by_uid s = Some u ->
  In u SOP_CLASSES /\ u_uid u = s /\ sop_by_keyword (u_alias u) = Some u.
Proof. exact sop_by_uid_consistent. Qed.
Theorem C15_sop_class_by_keyword : forall s u, sop_by_keyword s = Some u ->
  In u SOP_CLASSES /\ u_alias u = s /\ sop_by_uid (u_uid u) = Some u.
Proof. exact sop_by_keyword_consistent. Qed.

(** Non-vacuity: the table is the complete one (5 000+ rows, as many as the source text
    has), and each branch of the precedence is inhabited. *)
Example C15_nonvacuous_table : N.of_nat (List.length ENTRIES) = ENTRIES_len /\ ENTRIES_len = ENTRIES_rows_in_source /\ 5000 < ENTRIES_len.
Proof. split; [apply table_length|]. split; [apply table_length|]. vm_compute. reflexivity. Qed.
Example C15_nonvacuous_branches :
  (exists en, by_tag 32736 16 = Some en /\ e_kind en = K_SINGLE) /\          (* (7FE0,0010) PixelData, inside the 7Fxx range *)
  (exists en, by_tag 32737 16 = Some en /\ e_kind en = K_GROUP100) /\        (* (7FE1,0010): repeating group before private creator *)
  (exists en, by_tag 32 12799 = Some en /\ e_kind en = K_ELEMENT100) /\      (* (0020,31FF) *)
  by_tag 9 16 = Some PRIVATE_CREATOR_ENTRY /\ by_tag 8 0 = Some GROUP_LENGTH_ENTRY /\ by_tag 8 3 = None.
Proof. vm_compute. repeat split; eexists; split; reflexivity. Qed.

Check C15_lookup : forall g e, g < 65536 -> e < 65536 ->
  by_tag g e = spec_lookup ENTRIES GROUP_LENGTH_ENTRY PRIVATE_CREATOR_ENTRY g e.
Check C15_by_name : forall en, In en (ENTRIES ++ [GROUP_LENGTH_ENTRY; PRIVATE_CREATOR_ENTRY]) ->
  by_name (e_alias en) = Some en.
Check C15_constants : forall c, In c TAG_CONSTS ->
  exists en, by_name (c_alias c) = Some en /\ e_alias en = c_alias c /\ e_kind en = c_kind c /\ e_tag en = c_tag c.
Check C15_sop_class : forall u, In u SOP_CLASSES ->
  sop_by_uid (u_uid u) = Some u /\ sop_by_keyword (u_alias u) = Some u.
Print Assumptions C15_lookup.
Print Assumptions C15_unambiguous.
Print Assumptions C15_by_name.
Print Assumptions C15_by_name_keyword.
Print Assumptions C15_constants.
Print Assumptions C15_constants_cover.
Print Assumptions C15_sop_class.
Print Assumptions C15_sop_class_by_uid.
Print Assumptions C15_sop_class_by_keyword.
