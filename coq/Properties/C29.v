(** C29 — Requestor and acceptor agree on the association and respect PDU limits.
    Statements only; proofs are in Proofs/ClientP.v (and Proofs/NegotiateP.v).
    Models: Model/Client.v (client.rs [create_a_associate_req],
    [process_a_association_resp], builder; mod.rs [encode_pdu]/[send]) composed
    with Model/Negotiate.v (server.rs) through the wire (the PDU reader trims
    white space around UIDs and AE titles).

    All theorems hold for any registry, any configurations, any number of
    proposed contexts (the requestor itself refuses more than 128, see
    [C29_ids_odd_distinct]) and any strings. *)
From DicomV Require Import Model.Client Model.ClientCheck Proofs.NegotiateP Proofs.ClientP.

(** The two sides agree.  Hypotheses: the requestor's stored UIDs are what
    its own builder stores ([cfg_normal], see [C29_builder_normal]) and are not
    altered by the wire ([cfg_wire_clean]: no leading/trailing white space, true
    of every valid or NUL-padded UID).  Then, whenever the acceptor accepts the
    association and the requestor accepts the answer:
    - the requestor holds exactly the acceptor's accepted contexts
      (identifier, abstract syntax, transfer syntax), in the same order, and
      nothing else;
    - each side holds the other's announced maximum PDU length after the
      0 => largest / cap rule, i.e. exactly the other's own maximum whenever that
      maximum is one the other side can operate with. *)
Theorem C29_agree :
  forall reg cc sc ae proposed rq pcs_s pm_s acs am x y z pcs_c pm_c peer,
    cfg_normal cc -> cfg_wire_clean cc ->
    create_rq cc ae = Ok (proposed, rq) ->
    process_rq reg sc (InRQ (wire_rq rq)) = OAccept pcs_s pm_s acs am x y z ->
    process_resp cc proposed (reply_of sc (OAccept pcs_s pm_s acs am x y z)) = Ok (pcs_c, pm_c, peer) ->
    map view pcs_c = accepted_view pcs_s /\
    Forall (fun p => pn_reason p = R_ACCEPT) pcs_c /\
    pm_s = norm_max (cc_max_pdu cc) /\ pm_c = norm_max (sc_max_pdu sc) /\
    (valid_local_max (cc_max_pdu cc) = true -> pm_s = cc_max_pdu cc) /\
    (valid_local_max (sc_max_pdu sc) = true -> pm_c = sc_max_pdu sc).
Proof. exact agree. Qed.

Theorem C29_builder_normal :
  forall c a tss, cfg_normal c -> cfg_normal (with_presentation_context c a tss).
Proof. exact with_presentation_context_normal. Qed.

(** The requestor uses distinct odd context identifiers 1, 3, 5, ... and the
    request carries exactly those; more than 128 contexts are refused (there
    are only 128 odd identifiers below 256; before the fix recorded in
    KNOWN_FINDINGS.txt the identifiers wrapped around: [(2*i+1) as u8]). *)
Theorem C29_ids_odd_distinct :
  forall c ae proposed rq,
    create_rq c ae = Ok (proposed, rq) ->
    NoDup (map pp_id proposed) /\
    Forall (fun p => 1 <= pp_id p <= 255 /\ N.odd (pp_id p) = true) proposed /\
    map pp_id proposed = map (fun k => 2 * N.of_nat k + 1) (seq 0 (length proposed)) /\
    map pp_id (rq_pcs rq) = map pp_id proposed.
Proof. exact create_rq_ids. Qed.
Theorem C29_too_many_contexts_refused :
  forall c ae, (MAX_CONTEXTS < length (cc_pcs c))%nat -> create_rq c ae = Err E_TOO_MANY_CONTEXTS.
Proof. exact create_rq_too_many. Qed.

(** The requestor fails when nothing is accepted: on any answer without an
    accepted, proposed context ... *)
Theorem C29_none_accepted :
  forall c proposed ac,
    cc_proto c = ac_proto ac -> accepted_contexts proposed (ac_pcs ac) = [] ->
    process_resp c proposed (RespAC ac) = Err E_NONE_ACCEPTED.
Proof. exact process_resp_none. Qed.
(** ... in particular against the dicom-rs acceptor when it accepted no context
    (the only other outcome is the protocol version error, impossible when both
    sides use the same version). *)
Theorem C29_none_accepted_pair :
  forall reg cc sc ae proposed rq pcs_s pm_s acs am x y z,
    create_rq cc ae = Ok (proposed, rq) ->
    process_rq reg sc (InRQ (wire_rq rq)) = OAccept pcs_s pm_s acs am x y z ->
    accepted_view pcs_s = [] ->
    process_resp cc proposed (reply_of sc (OAccept pcs_s pm_s acs am x y z)) = Err E_NONE_ACCEPTED
    \/ (cc_proto cc <> sc_proto sc /\
        process_resp cc proposed (reply_of sc (OAccept pcs_s pm_s acs am x y z)) = Err E_PROTO_MISMATCH).
Proof. exact none_accepted. Qed.
(** whatever the requestor keeps is accepted and non-empty *)
Theorem C29_client_keeps_only_accepted :
  forall c proposed msg pcs m t,
    process_resp c proposed msg = Ok (pcs, m, t) ->
    pcs <> [] /\ Forall (fun p => pn_reason p = R_ACCEPT) pcs.
Proof.
  intros c proposed msg pcs m t H.
  destruct (process_resp_ok_inv _ _ _ _ _ _ H) as [ac [_ [_ [-> [Hne _]]]]].
  split; [exact Hne | apply accepted_contexts_all_accepted].
Qed.

(** Send-size limit ([encode_pdu] behind every [send]): a send that succeeds
    wrote at most (peer maximum + 6 header bytes), i.e. the PDU length field is at
    most the peer's maximum; with a negotiated maximum (always <= the largest
    supported, [C29_negotiated_max_bounds]) the u32 addition cannot overflow and a
    longer PDU is rejected locally with SendTooLongPdu. *)
Theorem C29_send_limit :
  forall pm len, send_check pm len = Ok tt -> len <= pm + PDU_HEADER_SIZE /\ pm + PDU_HEADER_SIZE <= U32_MAX.
Proof. exact send_check_ok. Qed.
Theorem C29_send_rejected_locally :
  forall pm len, pm <= MAXIMUM_PDU_SIZE ->
    send_check pm len = if pm + PDU_HEADER_SIZE <? len then Err E_SEND_TOO_LONG else Ok tt.
Proof. exact send_check_total. Qed.
Theorem C29_negotiated_max_bounds :
  (forall m, 0 < norm_max m <= MAXIMUM_PDU_SIZE) /\
  (forall uv, 0 < requestor_max uv <= MAXIMUM_PDU_SIZE) /\
  (forall uv, 0 < acceptor_max uv <= MAXIMUM_PDU_SIZE).
Proof.
  split; [exact norm_max_bounds|]. split; [exact requestor_max_bounds|].
  intros uv. unfold acceptor_max. apply norm_max_bounds.
Qed.

(** Non-vacuity: a requestor proposing three contexts (one NUL-padded transfer
    syntax) against an acceptor configured for two abstract syntaxes: both sides
    end with contexts 1 and 3, maxima 16384 (acceptor's) and 65536 (requestor's). *)
Example C29_nonvacuous :
  let ile := implicit_vr_le in
  let ele := implicit_vr_le ++ [46;49] in
  let cc := mk_ccfg ([83;67;85], None, [([49;46;50], [ele ++ [0]; ile]); ([49;46;51;0], [ile]); ([49;46;52], [ile])], 65536, 1%nat) in
  let sc := mk_cfg (AcceptAny, [83], [[49;46;50]; [49;46;51]], [], 16384, false) in
  cfg_normal cc /\ cfg_wire_clean cc /\
  establish_pair cc sc None =
  (Ok ([ {| pn_id := 1; pn_reason := 0; pn_ts := ele; pn_abs := [49;46;50] |};
         {| pn_id := 3; pn_reason := 0; pn_ts := ile; pn_abs := [49;46;51] |};
         {| pn_id := 5; pn_reason := 3; pn_ts := ile; pn_abs := [49;46;52] |} ], 65536, 16384),
   Ok ([ {| pn_id := 1; pn_reason := 0; pn_ts := ele; pn_abs := [49;46;50] |};
         {| pn_id := 3; pn_reason := 0; pn_ts := ile; pn_abs := [49;46;51] |} ], 16384, 65536)).
Proof.
  cbv zeta. split; [|split].
  - repeat constructor.
  - repeat constructor.
  - vm_compute. reflexivity.
Qed.

Check C29_agree :
  forall reg cc sc ae proposed rq pcs_s pm_s acs am x y z pcs_c pm_c peer,
    cfg_normal cc -> cfg_wire_clean cc ->
    create_rq cc ae = Ok (proposed, rq) ->
    process_rq reg sc (InRQ (wire_rq rq)) = OAccept pcs_s pm_s acs am x y z ->
    process_resp cc proposed (reply_of sc (OAccept pcs_s pm_s acs am x y z)) = Ok (pcs_c, pm_c, peer) ->
    map view pcs_c = accepted_view pcs_s /\
    Forall (fun p => pn_reason p = R_ACCEPT) pcs_c /\
    pm_s = norm_max (cc_max_pdu cc) /\ pm_c = norm_max (sc_max_pdu sc) /\
    (valid_local_max (cc_max_pdu cc) = true -> pm_s = cc_max_pdu cc) /\
    (valid_local_max (sc_max_pdu sc) = true -> pm_c = sc_max_pdu sc).
Check C29_ids_odd_distinct :
  forall c ae proposed rq,
    create_rq c ae = Ok (proposed, rq) ->
    NoDup (map pp_id proposed) /\
    Forall (fun p => 1 <= pp_id p <= 255 /\ N.odd (pp_id p) = true) proposed /\
    map pp_id proposed = map (fun k => 2 * N.of_nat k + 1) (seq 0 (length proposed)) /\
    map pp_id (rq_pcs rq) = map pp_id proposed.
Check C29_none_accepted :
  forall c proposed ac,
    cc_proto c = ac_proto ac -> accepted_contexts proposed (ac_pcs ac) = [] ->
    process_resp c proposed (RespAC ac) = Err E_NONE_ACCEPTED.
Check C29_send_limit :
  forall pm len, send_check pm len = Ok tt -> len <= pm + PDU_HEADER_SIZE /\ pm + PDU_HEADER_SIZE <= U32_MAX.
Print Assumptions C29_agree.
Print Assumptions C29_builder_normal.
Print Assumptions C29_ids_odd_distinct.
Print Assumptions C29_too_many_contexts_refused.
Print Assumptions C29_none_accepted.
Print Assumptions C29_none_accepted_pair.
Print Assumptions C29_client_keeps_only_accepted.
Print Assumptions C29_send_limit.
Print Assumptions C29_send_rejected_locally.
Print Assumptions C29_negotiated_max_bounds.
