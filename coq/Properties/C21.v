(** C21 — Native pixel data frames are extracted exactly.
    Statements only; proofs are in Proofs/NativePixP.v.
    [img] = the attributes Rows, Columns, Samples per Pixel, Bits Allocated,
    Number of Frames and the bytes of a native Pixel Data element.
    [stored_ok i]: the element holds all frames (ceil(samples/8) bytes for
    1-bit images, frames * frame size bytes otherwise; trailing padding allowed).
    [out_frame_size i] = rows*cols*spp*ceil(bits/8): decoded bytes per frame
    (1-bit samples are expanded to one byte each). *)
From DicomV Require Import Base.Prelude Model.NativePix Proofs.NativePixP.

(** Whole-object decoding yields frames x frame-size bytes, for ANY bits
    allocated (1, 8, 16, ...), samples per pixel, dimensions and frame count,
    also when the element carries trailing padding. *)
Theorem C21_whole_len : forall i w,
  stored_ok i -> decode_whole i = Ok w -> len w = nframes i * out_frame_size i.
Proof. exact whole_len. Qed.

(** Decoding a single frame, and [frame_data] on the whole-object result,
    both return exactly the slice [f*size, (f+1)*size) of the whole-object result. *)
Theorem C21_frame_eq_slice : forall i w f,
  stored_ok i -> f < nframes i -> decode_whole i = Ok w ->
  decode_frame i f = Ok (slice w (f * out_frame_size i) (out_frame_size i)) /\
  frame_data i w f = Ok (slice w (f * out_frame_size i) (out_frame_size i)).
Proof. exact frame_eq_slice. Qed.

(** 1-bit images: the samples of frame f are 255 x the bits
    [f*n, (f+1)*n) of the stored stream (bit k = bit (k mod 8), least
    significant first, of byte k/8): continuous packing across frame
    boundaries, n = rows*cols*spp not necessarily a multiple of 8. *)
Theorem C21_one_bit : forall i f,
  bits i = 1 -> stored_ok i -> f < nframes i ->
  decode_frame i f = Ok (bits_from (data i) (f * frame_samples i) (N.to_nat (frame_samples i))).
Proof. exact one_bit_frame. Qed.

(** and the whole object is the expansion of the first frames*n bits. *)
Theorem C21_one_bit_whole : forall i,
  bits i = 1 -> stored_ok i ->
  decode_whole i = Ok (bits_from (data i) 0 (N.to_nat (frame_samples i * nframes i))).
Proof. exact decode_whole_one_bit. Qed.

(** every expanded sample is 0 or 255 *)
Theorem C21_one_bit_values : forall d from n,
  Forall (fun x => x = 0 \/ x = 255) (bits_from d from n).
Proof. exact bits_from_values. Qed.

(** Other depths: frame f is the byte range [f*size, (f+1)*size) of the stored data. *)
Theorem C21_bytes_frame : forall i f,
  bits i <> 1 -> stored_ok i -> f < nframes i ->
  decode_frame i f = Ok (slice (data i) (f * out_frame_size i) (out_frame_size i)).
Proof. exact bytes_frame. Qed.

(** Non-vacuity: the 3x3 1-bit 2-frame image of the original defect report
    (18 samples in 3 bytes) satisfies the hypotheses, and decodes to 18 samples. *)
Definition ex_img := {| rows := 3; cols := 3; spp := 1; bits := 1; nframes := 2; data := [170; 1; 3] |}.
Example C21_nonvacuous :
  stored_ok ex_img /\
  decode_whole ex_img = Ok [0;255;0;255;0;255;0;255;255; 0;0;0;0;0;0;0;255;255] /\
  decode_frame ex_img 1 = Ok [0;0;0;0;0;0;0;255;255].
Proof. repeat split; vm_compute; congruence. Qed.

Check C21_whole_len : forall i w,
  stored_ok i -> decode_whole i = Ok w -> len w = nframes i * out_frame_size i.
Check C21_frame_eq_slice : forall i w f,
  stored_ok i -> f < nframes i -> decode_whole i = Ok w ->
  decode_frame i f = Ok (slice w (f * out_frame_size i) (out_frame_size i)) /\
  frame_data i w f = Ok (slice w (f * out_frame_size i) (out_frame_size i)).
Check C21_one_bit : forall i f,
  bits i = 1 -> stored_ok i -> f < nframes i ->
  decode_frame i f = Ok (bits_from (data i) (f * frame_samples i) (N.to_nat (frame_samples i))).
Print Assumptions C21_whole_len.
Print Assumptions C21_frame_eq_slice.
Print Assumptions C21_one_bit.
Print Assumptions C21_one_bit_whole.
Print Assumptions C21_one_bit_values.
Print Assumptions C21_bytes_frame.
