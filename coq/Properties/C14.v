(** C14 — Tags, keywords and attribute selectors have a lossless text syntax.
    Statements only; proofs are in Proofs/TagTextP.v, Proofs/TagTextStdP.v,
    Proofs/RustStrP.v. A [&str] is its UTF-8 byte list (Base/RustStr.v).

    The model is of the code AFTER fix 802bc14 ([Tag::from_str] used to panic
    on 8-byte strings with a multi-byte character across byte 4:
    [C14_unfixed_panicked]). *)
From DicomV Require Import Base.RustStr Proofs.RustStrP Model.TagText Model.TagTextStd
  Proofs.TagTextP Proofs.TagTextStdP Proofs.TagTotalP.
From DicomV Require Import Gen.GenKeywords.

(** ---------------------------------------------------------------- tags *)

(** Every tag written in any of the three forms, with any mix of upper- and
    lower-case hexadecimal digits, parses to that tag. *)
Theorem C14_tag_forms : forall f g e gd ed,
  hex4_of g gd -> hex4_of e ed -> tag_from_str (tag_text f gd ed) = Ok (g, e).
Proof. exact tag_forms_parse. Qed.

(** In particular the printed forms (Display is [print_tag Paren true]). *)
Theorem C14_tag_print : forall f upper t,
  wf_tag t -> tag_from_str (print_tag f upper t) = Ok t.
Proof. exact tag_print_parse. Qed.

(** Parsing accepts EXACTLY those forms: whatever byte string is accepted is
    one of the three forms spelled with four hex digits per part, and the
    value is the one spelled. *)
Theorem C14_exact : forall s g e,
  tag_from_str s = Ok (g, e) ->
  exists f gd ed, hex4_of g gd /\ hex4_of e ed /\ s = tag_text f gd ed.
Proof. exact tag_parse_exact. Qed.

(** No string makes the parser panic: for every sequence of scalar values,
    parsing its UTF-8 encoding returns Ok or Err. *)
Theorem C14_reject_total : forall (cps : str) w, tag_from_str (utf8 cps) <> Panic w.
Proof. intros cps w. apply tag_from_str_no_panic. apply utf8_ascii_sync. Qed.

(** Hence any other string is rejected with an error. *)
Theorem C14_reject : forall cps : str,
  (forall f g e gd ed, hex4_of g gd -> hex4_of e ed -> utf8 cps <> tag_text f gd ed) ->
  exists err, tag_from_str (utf8 cps) = Err err.
Proof.
  intros cps Hno. destruct (tag_from_str (utf8 cps)) as [[g e]|err|w] eqn:E.
  - exfalso. destruct (tag_parse_exact _ _ _ E) as [f [gd [ed [Hg [He Hs]]]]]. exact (Hno f g e gd ed Hg He Hs).
  - eauto.
  - exfalso. exact (tag_from_str_no_panic _ w (utf8_ascii_sync cps) E).
Qed.

(** What the fix changed: the unfixed code panicked on "000é000". *)
Theorem C14_unfixed_panicked :
  tag_from_str_unfixed (utf8 [48; 48; 48; 233; 48; 48; 48]) = Panic P_char_boundary /\
  tag_from_str (utf8 [48; 48; 48; 233; 48; 48; 48]) = Err E_number.
Proof. split; [exact unfixed_panics | exact fixed_rejects]. Qed.

(** ---------------------------------------------------------------- selectors *)

(** Every selector value (anything [AttributeSelector::new] returns: any
    depth, item indices up to u32::MAX) prints to a text that parses back to
    the same selector, whatever the dictionary. [dbg] is whether the build has
    debug assertions ([new] panics on 256 or more steps then). *)
Theorem C14_selector_rt : forall by_name dbg steps sel,
  selector_new dbg steps = Ok (Some sel) -> Forall wf_step sel ->
  parse_selector by_name dbg (print_selector sel) = Ok sel.
Proof. exact selector_roundtrip. Qed.

(** More generally each key may be spelled in any way the dictionary resolves
    (no '.', '[' or ']' inside): the text parses to exactly the steps written,
    normalised as [AttributeSelector::new] does. *)
Theorem C14_selector_spelled : forall by_name dbg ks,
  ks <> [] -> Forall (key_ok by_name) ks ->
  parse_selector by_name dbg (spelled_text ks) = sel_result dbg (map snd ks).
Proof. exact parse_selector_spelled. Qed.

(** every tag literal (three forms, any casing) is such a key, for any dictionary *)
Theorem C14_tag_keys : forall by_name f g e gd ed,
  hex4_of g gd -> hex4_of e ed -> good_key by_name (tag_text f gd ed) (g, e).
Proof. exact tag_text_good_key. Qed.

(** ---------------------------------------------------------------- totality (no panic) on every string
    Every place of the real code that can panic is an explicit [Panic] in the
    model, guarded exactly as in the code: [split_at] / [&s[a..]] / [&s[a..b]]
    (character boundary, range), [from_str_radix(..).expect(..)], and the
    debug-only [debug_assert!(steps.len() < 256)] of AttributeSelector::new.
    [find], [split], [parse::<u32>()], [ends_with] return options/results. *)

(** DataDictionary::parse_tag never panics *)
Theorem C14_parse_tag_total : forall by_name (cps : str) w,
  parse_tag_dict by_name (utf8 cps) <> Panic w.
Proof. intros. apply parse_tag_dict_no_panic, utf8_ascii_sync. Qed.

(** DataDictionary::by_expr never panics (entry type and both look-ups abstract) *)
Theorem C14_by_expr_total : forall (E : Type) (by_tag : tag -> option E) by_name_e (cps : str) w,
  by_expr by_tag by_name_e (utf8 cps) <> Panic w.
Proof. intros. apply by_expr_no_panic, utf8_ascii_sync. Qed.

(** DataDictionary::parse_selector never panics in a RELEASE build, for any
    dictionary and any string *)
Theorem C14_selector_total : forall by_name (cps : str) w,
  parse_selector by_name false (utf8 cps) <> Panic w.
Proof. intros. apply parse_selector_release_total, utf8_ascii_sync. Qed.

(** ... and in a DEBUG build the only panic is the debug assertion of
    AttributeSelector::new, reached exactly by texts of 256 or more parts that
    all parse (this one stays outside the totality claim) *)
Theorem C14_selector_panic_only_debug : forall by_name dbg (cps : str) w,
  parse_selector by_name dbg (utf8 cps) = Panic w ->
  dbg = true /\ w = P_debug_assert /\ (256 <= length (split_on dot (utf8 cps)))%nat.
Proof. intros by_name dbg cps w. apply parse_selector_panic_only_debug, utf8_ascii_sync. Qed.

(** TagRange::from_str ("(60xx,3000)" forms) and VR::from_str never panic *)
Theorem C14_tag_range_total : forall (cps : str) w, tag_range_from_str (utf8 cps) <> Panic w.
Proof. intros. apply tag_range_no_panic, utf8_ascii_sync. Qed.
Theorem C14_vr_total : forall s w, vr_from_str s <> Panic w.
Proof. exact vr_from_str_no_panic. Qed.

(** ---------------------------------------------------------------- keywords
    Complete sweep over the keyword table regenerated from the code on every
    run (kw_rows: one row per alias of dictionary-std/src/tags.rs plus the two
    generic entries, with the tag the real by_name returned). *)

(** every dictionary keyword resolves, through [parse_tag], to that keyword's
    tag, and is usable as a selector key *)
Theorem C14_keywords : forall r,
  In r kw_rows -> good_key std_by_name (row_key r) (row_tag r).
Proof. exact keywords_good. Qed.

(** no keyword is shadowed by the tag-literal syntax *)
Theorem C14_keywords_not_literals : forall r,
  In r kw_rows -> exists e, tag_from_str (row_key r) = Err e.
Proof. exact keywords_not_literals. Qed.

(** the table misses no alias of the source and has one row per distinct alias *)
Theorem C14_keyword_table_complete :
  kw_missing = 0 /\ N.of_nat (length kw_rows) = kw_distinct_aliases.
Proof. split; [exact kw_none_missing | exact kw_rows_count]. Qed.

(** a selector written with keywords and/or tag literals resolves to the
    keywords' tags *)
Definition std_key (p : bytes * step) : Prop :=
  item_ok (snd p) /\
  ((exists r, In r kw_rows /\ fst p = row_key r /\ step_tag (snd p) = row_tag r) \/
   (exists f gd ed, hex4_of (fst (step_tag (snd p))) gd /\ hex4_of (snd (step_tag (snd p))) ed
                    /\ fst p = tag_text f gd ed)).

Theorem C14_keyword_selectors : forall dbg ks,
  ks <> [] -> Forall std_key ks ->
  parse_selector std_by_name dbg (spelled_text ks) = sel_result dbg (map snd ks).
Proof.
  intros dbg ks Hne Hall. apply parse_selector_spelled; [exact Hne|].
  apply Forall_forall. intros p Hp. rewrite Forall_forall in Hall. destruct (Hall p Hp) as [Hi Hk].
  split; [|exact Hi]. destruct Hk as [[r [Hin [-> ->]]]|[f [gd [ed [Hg [He ->]]]]]].
  - apply keywords_good; exact Hin.
  - destruct (step_tag (snd p)) as [g e]. apply tag_text_good_key; assumption.
Qed.

(** Non-vacuity: concrete values meet the hypotheses and go through the real table. *)
Example C14_nonvacuous :
  hex4_of 32736 [55; 102; 69; 48] /\                      (* "7fE0" *)
  wf_step (SNested (8, 4416) 4294967295) /\
  selector_new true [STag (8, 4416); STag (8, 4432)] = Ok (Some [SNested (8, 4416) 0; STag (8, 4432)]) /\
  parse_selector std_by_name true [82;101;102;101;114;101;110;99;101;100;73;109;97;103;101;83;101;113;117;101;110;99;101;91;51;93;46;80;97;116;105;101;110;116;78;97;109;101]         (* "ReferencedImageSequence[3].PatientName" *)
    = Ok [SNested (8, 4416) 3; STag (16, 16)].
Proof. repeat split; vm_compute; congruence. Qed.

Check C14_tag_forms : forall f g e gd ed,
  hex4_of g gd -> hex4_of e ed -> tag_from_str (tag_text f gd ed) = Ok (g, e).
Check C14_exact : forall s g e,
  tag_from_str s = Ok (g, e) ->
  exists f gd ed, hex4_of g gd /\ hex4_of e ed /\ s = tag_text f gd ed.
Check C14_reject_total : forall (cps : str) w, tag_from_str (utf8 cps) <> Panic w.
Check C14_selector_rt : forall by_name dbg steps sel,
  selector_new dbg steps = Ok (Some sel) -> Forall wf_step sel ->
  parse_selector by_name dbg (print_selector sel) = Ok sel.
Check C14_keywords : forall r,
  In r kw_rows -> good_key std_by_name (row_key r) (row_tag r).
Check C14_keyword_selectors : forall dbg ks,
  ks <> [] -> Forall std_key ks ->
  parse_selector std_by_name dbg (spelled_text ks) = sel_result dbg (map snd ks).
Check C14_selector_total : forall by_name (cps : str) w,
  parse_selector by_name false (utf8 cps) <> Panic w.
Check C14_parse_tag_total : forall by_name (cps : str) w,
  parse_tag_dict by_name (utf8 cps) <> Panic w.
Print Assumptions C14_parse_tag_total.
Print Assumptions C14_by_expr_total.
Print Assumptions C14_selector_total.
Print Assumptions C14_selector_panic_only_debug.
Print Assumptions C14_tag_range_total.
Print Assumptions C14_vr_total.
Print Assumptions C14_tag_forms.
Print Assumptions C14_tag_print.
Print Assumptions C14_exact.
Print Assumptions C14_reject_total.
Print Assumptions C14_reject.
Print Assumptions C14_unfixed_panicked.
Print Assumptions C14_selector_rt.
Print Assumptions C14_selector_spelled.
Print Assumptions C14_tag_keys.
Print Assumptions C14_keywords.
Print Assumptions C14_keywords_not_literals.
Print Assumptions C14_keyword_table_complete.
Print Assumptions C14_keyword_selectors.
