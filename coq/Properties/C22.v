(** C22 — Modality and VOI LUT outputs match the PS3.3 formulas.
    Statements only; proofs are in Proofs/LutP.v (index logic) and
    Proofs/LutFloatP.v (binary64 arithmetic, Flocq). *)
From Coq Require Import Floats.
From DicomV Require Import Base.Prelude Model.Lut Spec.Ps33Lut Proofs.LutP.

(** *** Index logic (integer part), all LUT sizes.
    Whatever function [f] is tabulated and whatever the output type: when the
    table can be built, [get] on ANY raw sample (garbage above the high bit
    included) returns the entry computed from the pixel value that the low
    [bits] bits denote, read as two's complement when [signed]. *)
Theorem C22_index_general : forall bits signed f t l s,
  new_with_fn bits signed f t = Ok l ->
  cast t (f (x_of_index bits signed (N.land s (lut_size bits - 1)))) = Some (lut_get l s)
  /\ (0 < bits)%N /\ index_value bits signed (N.land s (lut_size bits - 1)) = stored_value bits signed s.
Proof.
  intros bits signed f t l s H. split; [now apply new_with_fn_get|].
  assert (0 < bits)%N.
  { destruct bits; [|reflexivity]. unfold new_with_fn in H. cbn in H. discriminate. }
  split; [assumption | now apply index_value_stored].
Qed.

(** Bits stored 1 to 16 (complete sweep of the f64 conversions `i as f64 - size as f64`):
    the entry is the tabulated function applied to the stored pixel value itself. *)
Theorem C22_index : forall bits signed f t l s,
  (1 <= bits <= 16)%N ->
  new_with_fn bits signed f t = Ok l ->
  cast t (f (z2f (stored_value bits signed s))) = Some (lut_get l s).
Proof.
  intros bits signed f t l s Hb H.
  rewrite <- (index_value_stored bits signed s) by lia.
  rewrite <- x_of_index_exact; [now apply new_with_fn_get | exact Hb | apply land_mask_lt].
Qed.

(** Construction fails with CreateLutError only if some pixel value's output does
    not fit the output type, and panics exactly for bits_stored 0 or above 32. *)
Theorem C22_create_error : forall bits signed f t,
  new_with_fn bits signed f t = Err 1%N ->
  exists i, (i < lut_size bits)%N /\ cast t (f (x_of_index bits signed i)) = None.
Proof. exact new_with_fn_err. Qed.

Theorem C22_panic_iff : forall bits signed f t,
  (exists w, new_with_fn bits signed f t = Panic w) <-> (bits = 0 \/ 32 < bits)%N.
Proof. exact new_with_fn_panic. Qed.

(** Non-vacuity: a signed 5-bit modality LUT exists; raw 0xFF reads as -1. *)
Example C22_nonvacuous :
  match new_rescale 5 true {| slope := 2; intercept := 10 |} TI16 with
  | Ok l => lut_get l 255 = 8%Z /\ stored_value 5 true 255 = (-1)%Z
  | _ => False
  end.
Proof. vm_compute. split; reflexivity. Qed.

Check C22_index : forall bits signed f t l s,
  (1 <= bits <= 16)%N ->
  new_with_fn bits signed f t = Ok l ->
  cast t (f (z2f (stored_value bits signed s))) = Some (lut_get l s).
Print Assumptions C22_index_general.
Print Assumptions C22_index.
Print Assumptions C22_create_error.
Print Assumptions C22_panic_iff.
