(** C22 — Modality and VOI LUT outputs match the PS3.3 formulas.
    Statements only. Proofs: Proofs/LutP.v (index logic), Proofs/LutFloatP.v
    (binary64 arithmetic through Flocq), Proofs/LutEntryP.v (LUT entries).

    Reading guide. [new_with_fn bits signed f t] is [Lut::new_with_fn]
    (output type [t]); [lut_get] is [Lut::get]; [stored_value bits signed raw]
    (Spec/Ps33Lut.v) is the pixel value denoted by a raw sample: the low [bits]
    bits, two's complement when [signed]. f64 values are Coq primitive floats;
    [fR x] is the real value of a finite float, [ffin x] says x is finite.
    [F_rescale], [F_linear], [F_linear_exact], [F_sigmoid] are the PS3.3
    formulas evaluated in binary64 in the standard's operation order. *)
From Coq Require Import Reals Floats ZArith.
From Flocq Require Import Core.Core.
From DicomV Require Import Base.Prelude Model.Lut Spec.Ps33Lut Proofs.LutP Proofs.LutFloatP Proofs.LutEntryP.

(** * 1. Index logic (integers), all LUT sizes *)

(** Whatever function [f] is tabulated and whatever the output type: when the
    table can be built, [get] on ANY raw sample (garbage above the high bit
    included) returns the entry computed from table index [raw land mask], and
    that index denotes the stored pixel value. *)
Theorem C22_index_general : forall bits signed f t l s,
  new_with_fn bits signed f t = Ok l ->
  cast t (f (x_of_index bits signed (N.land s (lut_size bits - 1)))) = Some (lut_get l s)
  /\ (0 < bits)%N /\ index_value bits signed (N.land s (lut_size bits - 1)) = stored_value bits signed s.
Proof.
  intros bits signed f t l s H. split; [now apply new_with_fn_get|].
  assert (0 < bits)%N.
  { destruct bits; [|reflexivity]. unfold new_with_fn in H. cbn in H. discriminate. }
  split; [assumption | now apply index_value_stored].
Qed.

(** Bits stored 1 to 16 (complete sweep of the conversions `i as f64 - size as f64`):
    the entry is the tabulated function applied to the stored pixel value itself,
    converted to the output type. *)
Theorem C22_index : forall bits signed f t l s,
  (1 <= bits <= 16)%N ->
  new_with_fn bits signed f t = Ok l ->
  cast t (f (z2f (stored_value bits signed s))) = Some (lut_get l s).
Proof. exact C22_index_lemma. Qed.

(** Construction fails with CreateLutError only if some pixel value's output does
    not fit the output type, and panics exactly for bits_stored 0 or above 32. *)
Theorem C22_create_error : forall bits signed f t,
  new_with_fn bits signed f t = Err 1%N ->
  exists i, (i < lut_size bits)%N /\ cast t (f (x_of_index bits signed i)) = None.
Proof. exact new_with_fn_err. Qed.

Theorem C22_panic_iff : forall bits signed f t,
  (exists w, new_with_fn bits signed f t = Panic w) <-> (bits = 0 \/ 32 < bits)%N.
Proof. exact new_with_fn_panic. Qed.

(** * 2. The entries are the binary64 evaluation of the PS3.3 formulas *)

(** Modality LUT: entry = cast (fl (fl (slope * x) + intercept)). *)
Theorem C22_rescale_exact : forall bits signed r t l s,
  (1 <= bits <= 16)%N ->
  new_rescale bits signed r t = Ok l ->
  cast t (F_rescale (slope r) (intercept r) (z2f (stored_value bits signed s))) = Some (lut_get l s).
Proof. intros bits signed r t l s Hb H. exact (C22_index_lemma bits signed _ t l s Hb H). Qed.

(** the VOI function of a window level transform, per the standard *)
Definition F_window (fexp : pfloat -> pfloat) (voi : wl_transform) (v ymax : pfloat) : pfloat :=
  match wl_fun voi with
  | Linear => F_linear v (wl_center voi) (wl_width voi) ymax
  | LinearExact => F_linear_exact v (wl_center voi) (wl_width voi) ymax
  | Sigmoid => F_sigmoid fexp v (wl_center voi) (wl_width voi) ymax
  end.

Theorem C22_window_exact : forall fexp bits signed r voi t l s,
  (1 <= bits <= 16)%N ->
  new_rescale_and_window fexp bits signed r voi t = Ok l ->
  cast t (F_window fexp voi (F_rescale (slope r) (intercept r) (z2f (stored_value bits signed s)))
                   (y_max_of_bits bits)) = Some (lut_get l s).
Proof.
  intros fexp bits signed r voi t l s Hb H.
  rewrite <- (C22_index_lemma bits signed _ t l s Hb H).
  unfold F_window, wl_apply. destruct (wl_fun voi); reflexivity.
Qed.

(** Width clamping of [WindowLevelTransform::new]: a NaN width or a width below 1 becomes 1
    (LINEAR), and with width 1 the function is the step at c - 0.5 of PS3.3. *)
Theorem C22_width_clamp_linear : forall w,
  PrimFloat.is_nan (width w) = true \/ (width w <? 1)%float = true ->
  wl_width (wl_new Linear w) = 1%float.
Proof. intros w H. unfold wl_new; cbn [wl_width]. now apply fmax_clamp. Qed.

Theorem C22_width1_step : forall v wc ymax, ffin v -> ffin (wc - 0.5)%float ->
  window_level_linear v 1 wc ymax = if Rle_bool (fR v) (fR (wc - 0.5)%float) then 0%float else ymax.
Proof. exact linear_width1_step. Qed.

(** * 3. Output range and monotonicity (LINEAR and LINEAR_EXACT)

    Hypothesis [voi_ok voi]: the computed window bounds c - 0.5 -/+ (w-1)/2 (resp. c -/+ w/2)
    are finite and not rounded AWAY from the window, and the computed half width is at most
    half the width ([ramp_ok] in Proofs/LutFloatP.v, stated over the reals). It holds whenever
    these few operations are exact (integer / dyadic centres and widths of moderate size); it is
    implied by the decidable test [voi_okb] (exact integer arithmetic, evaluate it with
    vm_compute), and it holds for every degenerate width (clamped to 1, resp. 0) with a finite
    centre. It is exactly what fails in the known finding WindowBoundsRoundedOutward
    ([C22_window_range_refuted]). *)
Theorem C22_voi_okb_sound : forall voi, voi_okb voi = true -> voi_ok voi.
Proof. exact voi_okb_sound. Qed.

Theorem C22_voi_ok_degenerate : forall wc,
  (ffin (wc - 0.5)%float -> voi_ok {| wl_fun := Linear; wl_width := 1; wl_center := wc |}) /\
  (ffin wc -> voi_ok {| wl_fun := LinearExact; wl_width := 0; wl_center := wc |}).
Proof. intros wc. split; intros H; unfold voi_ok; cbn [wl_fun wl_width wl_center]; [now apply lin_ok_width1 | now apply exact_ok_width0]. Qed.

(** f64 level: for every finite input the output is finite and within [0, y_max] ... *)
Theorem C22_window_range_f64 : forall fexp voi ymax v,
  voi_ok voi -> ffin ymax -> (0 <= fR ymax)%R -> ffin v ->
  ffin (wl_apply fexp voi v ymax) /\ (0 <= fR (wl_apply fexp voi v ymax) <= fR ymax)%R.
Proof. intros fexp voi ymax v OK Fy Py Fv. exact (window_range fexp voi ymax OK Fy Py v Fv). Qed.

(** ... and never decreases when the input increases. *)
Theorem C22_window_monotone_f64 : forall fexp voi ymax v1 v2,
  voi_ok voi -> ffin ymax -> (0 <= fR ymax)%R -> ffin v1 -> ffin v2 -> (fR v1 <= fR v2)%R ->
  (fR (wl_apply fexp voi v1 ymax) <= fR (wl_apply fexp voi v2 ymax))%R.
Proof. intros fexp voi ymax v1 v2 OK Fy Py. exact (window_mono fexp voi ymax OK Fy Py v1 v2). Qed.

(** LUT entries, rescale + window: every entry is within [0, y_max] ... *)
Theorem C22_window_range : forall fexp bits signed r voi t l s,
  (1 <= bits <= 16)%N -> voi_ok voi ->
  new_rescale_and_window fexp bits signed r voi t = Ok l ->
  ffin (rescale_apply r (z2f (stored_value bits signed s))) ->
  (0 <= lut_get l s <= y_max_Z bits)%Z.
Proof. intros fexp bits signed r voi t l s Hb OK. exact (rw_range fexp bits signed r voi t l Hb OK s). Qed.

(** ... and for a non-negative slope the output never decreases as the stored value increases. *)
Theorem C22_monotone : forall fexp bits signed r voi t l s1 s2,
  (1 <= bits <= 16)%N -> voi_ok voi ->
  new_rescale_and_window fexp bits signed r voi t = Ok l ->
  (0 <= fR (slope r))%R ->
  ffin (rescale_apply r (z2f (stored_value bits signed s1))) ->
  ffin (rescale_apply r (z2f (stored_value bits signed s2))) ->
  (stored_value bits signed s1 <= stored_value bits signed s2)%Z ->
  (lut_get l s1 <= lut_get l s2)%Z.
Proof. intros fexp bits signed r voi t l s1 s2 Hb OK. exact (rw_mono fexp bits signed r voi t l Hb OK s1 s2). Qed.

(** the same for the other window constructors *)
Theorem C22_window_only : forall fexp bits signed voi t l,
  (1 <= bits <= 16)%N -> voi_ok voi ->
  new_window fexp bits signed voi t = Ok l ->
  (forall s, (0 <= lut_get l s <= y_max_Z bits)%Z) /\
  (forall s1 s2, (stored_value bits signed s1 <= stored_value bits signed s2)%Z -> (lut_get l s1 <= lut_get l s2)%Z).
Proof.
  intros fexp bits signed voi t l Hb OK Hl. split.
  - intros s. exact (w_range fexp bits signed voi t l Hb OK s Hl).
  - intros s1 s2. exact (w_mono fexp bits signed voi t l Hb OK s1 s2 Hl).
Qed.

Theorem C22_window_8bit : forall fexp bits signed r voi l,
  (1 <= bits <= 16)%N -> voi_ok voi ->
  new_rescale_and_window_8bit fexp bits signed r voi = Ok l ->
  (forall s, ffin (rescale_apply r (z2f (stored_value bits signed s))) -> (0 <= lut_get l s <= 255)%Z) /\
  (forall s1 s2, (0 <= fR (slope r))%R ->
     ffin (rescale_apply r (z2f (stored_value bits signed s1))) ->
     ffin (rescale_apply r (z2f (stored_value bits signed s2))) ->
     (stored_value bits signed s1 <= stored_value bits signed s2)%Z -> (lut_get l s1 <= lut_get l s2)%Z).
Proof.
  intros fexp bits signed r voi l Hb OK Hl. split.
  - intros s. exact (rw8_range fexp bits signed r voi l Hb OK s Hl).
  - intros s1 s2. exact (rw8_mono fexp bits signed r voi l Hb OK s1 s2 Hl).
Qed.

Theorem C22_window_only_8bit : forall fexp bits signed voi l,
  (1 <= bits <= 16)%N -> voi_ok voi ->
  new_window_8bit fexp bits signed voi = Ok l ->
  (forall s, (0 <= lut_get l s <= 255)%Z) /\
  (forall s1 s2, (stored_value bits signed s1 <= stored_value bits signed s2)%Z -> (lut_get l s1 <= lut_get l s2)%Z).
Proof.
  intros fexp bits signed voi l Hb OK Hl. split.
  - intros s. exact (w8_range fexp bits signed voi l Hb OK s Hl).
  - intros s1 s2. exact (w8_mono fexp bits signed voi l Hb OK s1 s2 Hl).
Qed.

(** modality LUT alone *)
Theorem C22_rescale_monotone : forall bits signed r t l s1 s2,
  (1 <= bits <= 16)%N ->
  new_rescale bits signed r t = Ok l -> (0 <= fR (slope r))%R ->
  (stored_value bits signed s1 <= stored_value bits signed s2)%Z ->
  (lut_get l s1 <= lut_get l s2)%Z.
Proof. intros bits signed r t l s1 s2 Hb. exact (rescale_entries_mono bits signed r t l Hb s1 s2). Qed.

(** the finiteness hypotheses above hold for every stored value when |slope|, |intercept| <= 2^1000 *)
Theorem C22_rescale_finite : forall bits signed r s, (1 <= bits <= 16)%N ->
  ffin (slope r) -> ffin (intercept r) ->
  (Rabs (fR (slope r)) <= bpow radix2 1000)%R -> (Rabs (fR (intercept r)) <= bpow radix2 1000)%R ->
  ffin (rescale_apply r (z2f (stored_value bits signed s))).
Proof. exact rescale_finite_stored. Qed.

(** Without the hypothesis on the window bounds the range statement is FALSE (known finding
    WindowBoundsRoundedOutward): slope 1, intercept 2^53, LINEAR centre 2^53+2, width 3, an
    8-bit LUT into u16: the bound c - 0.5 + (w-1)/2 = 2^53+3 rounds up to 2^53+4, and the
    values in between map to 382 > 255. All parameters are finite and the width is >= 1. *)
Definition refuting_voi := wl_new Linear {| width := 3; center := 9007199254740994 |}.
Definition refuting_rescale := {| slope := 1; intercept := 9007199254740992 |}.
Theorem C22_window_range_refuted :
  voi_okb refuting_voi = false /\
  exists l, new_rescale_and_window no_exp 8 false refuting_rescale refuting_voi TU16 = Ok l /\
            lut_get l 3 = 382%Z /\ y_max_Z 8 = 255%Z.
Proof.
  split; [vm_compute; reflexivity|].
  destruct (new_rescale_and_window no_exp 8 false refuting_rescale refuting_voi TU16) as [l| |] eqn:E;
    [|vm_compute in E; discriminate..].
  exists l. split; [reflexivity|]. split; [|reflexivity].
  vm_compute in E. inversion E. vm_compute. reflexivity.
Qed.

(** ... hence these parameters do not satisfy [voi_ok]: the hypothesis is not vacuous-by-strength. *)
Theorem C22_refuted_not_ok : ~ voi_ok refuting_voi.
Proof.
  intros OK. destruct C22_window_range_refuted as (_ & l & Hl & Hget & Hy).
  assert (F : ffin (rescale_apply refuting_rescale (z2f (stored_value 8 false 3)))) by (apply ffin_SF; vm_compute; reflexivity).
  pose proof (C22_window_range no_exp 8 false refuting_rescale refuting_voi TU16 l 3 ltac:(lia) OK Hl F) as H.
  rewrite Hget, Hy in H. lia.
Qed.

(** * 4. SIGMOID (partial): range and monotonicity only, [exp] abstract.
    Assumed of f64::exp on finite arguments: the result is +infinity or finite and >= 0; it is
    monotone, also across the overflow threshold. The closeness of the output to the real
    formula is NOT stated. *)
Theorem C22_sigmoid_partial : forall fexp : pfloat -> pfloat,
  (forall a, ffin a -> fexp a = infinity \/ (ffin (fexp a) /\ (0 <= fR (fexp a))%R)) ->
  (forall a b, ffin a -> ffin b -> ffin (fexp a) -> ffin (fexp b) -> (fR a <= fR b)%R -> (fR (fexp a) <= fR (fexp b))%R) ->
  (forall a b, ffin a -> ffin b -> (fR a <= fR b)%R -> fexp a = infinity -> fexp b = infinity) ->
  forall ww wc ymax, ffin ymax -> (0 <= fR ymax)%R ->
  let arg v := (-4 * (v - wc) / ww)%float in
  let ok v := ffin (arg v) /\ (ffin (fexp (arg v)) -> ffin (1 + fexp (arg v))%float) in
  (forall v, ok v ->
     ffin (window_level_sigmoid fexp v ww wc ymax) /\
     (0 <= fR (window_level_sigmoid fexp v ww wc ymax) <= fR ymax)%R) /\
  (forall v1 v2, ffin v1 -> ffin v2 -> ffin wc -> (0 < fR ww)%R -> ok v1 -> ok v2 -> (fR v1 <= fR v2)%R ->
     (fR (window_level_sigmoid fexp v1 ww wc ymax) <= fR (window_level_sigmoid fexp v2 ww wc ymax))%R).
Proof.
  intros fexp H1 H2 H3 ww wc ymax Fy Py arg ok. split.
  - intros v [Ft Fd]. exact (sigmoid_range fexp H1 ww wc ymax Fy Py v Ft Fd).
  - intros v1 v2 F1 F2 Fc Hw [Ft1 Fd1] [Ft2 Fd2] Hv.
    exact (sigmoid_mono fexp H1 H2 H3 ww wc ymax Fy Py v1 v2 F1 F2 Fc Hw Ft1 Ft2 Fd1 Fd2 Hv).
Qed.

(** * Non-vacuity *)
Example C22_nonvacuous_index :
  match new_rescale 5 true {| slope := 2; intercept := 10 |} TI16 with
  | Ok l => lut_get l 255 = 8%Z /\ stored_value 5 true 255 = (-1)%Z
  | _ => False
  end.
Proof. vm_compute. split; reflexivity. Qed.

Example C22_nonvacuous_window :
  voi_okb (wl_new Linear {| width := 4096; center := 2048 |}) = true /\
  voi_okb (wl_new LinearExact {| width := 300; center := 50 |}) = true /\
  voi_okb (wl_new Linear {| width := -5; center := 128 |}) = true /\
  match new_rescale_and_window no_exp 12 false {| slope := 1; intercept := -1024 |}
          (wl_new Linear {| width := 300; center := 50 |}) TU16 with
  | Ok l => lut_get l 824 = 0%Z /\ lut_get l 1224 = 65535%Z /\ lut_get l (4096 + 1074) = lut_get l 1074
  | _ => False
  end.
Proof. vm_compute. repeat split; reflexivity. Qed.

Check C22_index : forall bits signed f t l s,
  (1 <= bits <= 16)%N ->
  new_with_fn bits signed f t = Ok l ->
  cast t (f (z2f (stored_value bits signed s))) = Some (lut_get l s).
Check C22_rescale_exact : forall bits signed r t l s,
  (1 <= bits <= 16)%N ->
  new_rescale bits signed r t = Ok l ->
  cast t (F_rescale (slope r) (intercept r) (z2f (stored_value bits signed s))) = Some (lut_get l s).
Check C22_window_range : forall fexp bits signed r voi t l s,
  (1 <= bits <= 16)%N -> voi_ok voi ->
  new_rescale_and_window fexp bits signed r voi t = Ok l ->
  ffin (rescale_apply r (z2f (stored_value bits signed s))) ->
  (0 <= lut_get l s <= y_max_Z bits)%Z.
Check C22_monotone : forall fexp bits signed r voi t l s1 s2,
  (1 <= bits <= 16)%N -> voi_ok voi ->
  new_rescale_and_window fexp bits signed r voi t = Ok l ->
  (0 <= fR (slope r))%R ->
  ffin (rescale_apply r (z2f (stored_value bits signed s1))) ->
  ffin (rescale_apply r (z2f (stored_value bits signed s2))) ->
  (stored_value bits signed s1 <= stored_value bits signed s2)%Z ->
  (lut_get l s1 <= lut_get l s2)%Z.
Print Assumptions C22_index_general.
Print Assumptions C22_index.
Print Assumptions C22_create_error.
Print Assumptions C22_panic_iff.
Print Assumptions C22_rescale_exact.
Print Assumptions C22_window_exact.
Print Assumptions C22_width_clamp_linear.
Print Assumptions C22_width1_step.
Print Assumptions C22_voi_okb_sound.
Print Assumptions C22_voi_ok_degenerate.
Print Assumptions C22_window_range_f64.
Print Assumptions C22_window_monotone_f64.
Print Assumptions C22_window_range.
Print Assumptions C22_monotone.
Print Assumptions C22_window_only.
Print Assumptions C22_window_8bit.
Print Assumptions C22_window_only_8bit.
Print Assumptions C22_rescale_monotone.
Print Assumptions C22_rescale_finite.
Print Assumptions C22_window_range_refuted.
Print Assumptions C22_refuted_not_ok.
Print Assumptions C22_sigmoid_partial.
