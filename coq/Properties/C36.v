(** C36 — Application entity addresses print and parse back unchanged.
    Statements only; proofs are in Proofs/AeAddrP.v.

    The socket-address type is abstract: any type [A] with a printer and a
    parser such that [parse_addr (print_addr a) = Ok a] (this is what
    std's SocketAddr/SocketAddrV4/SocketAddrV6 and String provide; it is an
    assumption about std, recorded in the trusted base, and exercised by the
    correspondence run on random IPv4/IPv6 socket addresses).

    Full statement of the property text:
      forall t a, no_at t -> full_parse (full_print (t, a)) = Ok (t, a)
      (and the same for AeAddr with [Some t]).
    The faithful model REFUTES it for exactly one title, the empty one
    ([FullAeAddr::new("", a)] prints "@addr", which the parser rejects by
    design as MissingPart; [AeAddr] parses it back WITHOUT a title):
    [C36_refuted]. Outside that class the statement is proved at full
    strength: [C36_full], [C36_ae_titled], [C36_outside_known]. The untitled
    half of the property holds with no hypothesis at all: [C36_ae_untitled]. *)
From DicomV Require Import Base.Str Model.AeAddr Proofs.AeAddrP.

Section C36.
  Variable A : Type.
  Variable print_addr : A -> str.
  Variable parse_addr : str -> outcome A.
  Hypothesis parse_print : forall a, parse_addr (print_addr a) = Ok a.

  (** FullAeAddr: a non-empty title without '@' and any address round-trip. *)
  Theorem C36_full : forall t a,
    no_at t -> t <> [] ->
    full_parse A parse_addr (full_print A print_addr (t, a)) = Ok (t, a).
  Proof. exact (full_rt A print_addr parse_addr parse_print). Qed.

  (** AeAddr with a title. *)
  Theorem C36_ae_titled : forall t a,
    no_at t -> t <> [] ->
    ae_parse A parse_addr (ae_print A print_addr (Some t, a)) = Ok (Some t, a).
  Proof. exact (ae_rt_titled A print_addr parse_addr parse_print). Qed.

  (** AeAddr without a title parses back without one — for EVERY address,
      including address texts that themselves contain '@'. *)
  Theorem C36_ae_untitled : forall a,
    ae_parse A parse_addr (ae_print A print_addr (None, a)) = Ok (None, a).
  Proof. exact (ae_rt_untitled A print_addr parse_addr parse_print). Qed.

  (** The property text as written (no '@' in the title is the only
      hypothesis) is false: the empty title is a counterexample for both types. *)
  Theorem C36_refuted : forall a,
    (exists t, no_at t /\ full_parse A parse_addr (full_print A print_addr (t, a)) <> Ok (t, a)) /\
    (exists t, no_at t /\ ae_parse A parse_addr (ae_print A print_addr (Some t, a)) <> Ok (Some t, a)).
  Proof.
    intros a. split; exists []; (split; [intros [] |]).
    - rewrite (full_empty_title A print_addr parse_addr). discriminate.
    - rewrite (ae_empty_title A print_addr parse_addr parse_print). intros H; inversion H.
  Qed.

  (** ... and the empty title is the ONLY counterexample (class EmptyTitle). *)
  Theorem C36_outside_known : forall t a,
    ~ empty_title t -> no_at t ->
    full_parse A parse_addr (full_print A print_addr (t, a)) = Ok (t, a) /\
    ae_parse A parse_addr (ae_print A print_addr (Some t, a)) = Ok (Some t, a).
  Proof.
    intros t a He Hn. split.
    - exact (full_rt A print_addr parse_addr parse_print t a Hn He).
    - exact (ae_rt_titled A print_addr parse_addr parse_print t a Hn He).
  Qed.

  (** What the code does on the empty title, exactly. *)
  Theorem C36_empty_title_behaviour : forall a,
    full_parse A parse_addr (full_print A print_addr ([], a)) = Err E_missing_part /\
    ae_parse A parse_addr (ae_print A print_addr (Some [], a)) = Ok (None, a).
  Proof.
    intros a. split.
    - exact (full_empty_title A print_addr parse_addr a).
    - exact (ae_empty_title A print_addr parse_addr parse_print a).
  Qed.

  (** Converse: whatever FullAeAddr's parser accepts has the printed shape. *)
  Theorem C36_full_accepts_only : forall s t a,
    full_parse A parse_addr s = Ok (t, a) ->
    exists rest, s = t ++ at_sign :: rest /\ no_at t /\ t <> [] /\ parse_addr rest = Ok a.
  Proof. exact (full_parse_ok_shape A parse_addr). Qed.
End C36.

(** Non-vacuity: the address hypothesis is satisfiable (T = String: print is
    the identity, parse never fails), and a concrete address round-trips. *)
Example C36_nonvacuous :
  let t := [83;67;80] in let a := [49;50;55;46;48;46;48;46;49;58;49;48;52] in
  (forall a : str, (fun s : str => Ok s) ((fun s : str => s) a) = Ok a) /\
  no_at t /\ t <> [] /\
  full_print str (fun s => s) (t, a) = t ++ [64] ++ a /\
  full_parse str (fun s => Ok s) (full_print str (fun s => s) (t, a)) = Ok (t, a).
Proof.
  cbv zeta. repeat split; try reflexivity; try discriminate.
  intros H; cbn in H. repeat (destruct H as [H|H]; [discriminate|]). exact H.
Qed.

Check C36_full : forall (A : Type) (print_addr : A -> str) (parse_addr : str -> outcome A),
  (forall a, parse_addr (print_addr a) = Ok a) ->
  forall t a, no_at t -> t <> [] ->
  full_parse A parse_addr (full_print A print_addr (t, a)) = Ok (t, a).
Check C36_ae_titled : forall (A : Type) (print_addr : A -> str) (parse_addr : str -> outcome A),
  (forall a, parse_addr (print_addr a) = Ok a) ->
  forall t a, no_at t -> t <> [] ->
  ae_parse A parse_addr (ae_print A print_addr (Some t, a)) = Ok (Some t, a).
Check C36_ae_untitled : forall (A : Type) (print_addr : A -> str) (parse_addr : str -> outcome A),
  (forall a, parse_addr (print_addr a) = Ok a) ->
  forall a, ae_parse A parse_addr (ae_print A print_addr (None, a)) = Ok (None, a).
Check C36_outside_known : forall (A : Type) (print_addr : A -> str) (parse_addr : str -> outcome A),
  (forall a, parse_addr (print_addr a) = Ok a) ->
  forall t a, ~ empty_title t -> no_at t ->
  full_parse A parse_addr (full_print A print_addr (t, a)) = Ok (t, a) /\
  ae_parse A parse_addr (ae_print A print_addr (Some t, a)) = Ok (Some t, a).
Print Assumptions C36_full.
Print Assumptions C36_ae_titled.
Print Assumptions C36_ae_untitled.
Print Assumptions C36_refuted.
Print Assumptions C36_outside_known.
Print Assumptions C36_empty_title_behaviour.
Print Assumptions C36_full_accepts_only.
