(** C07 — Odd-length values are handled per strategy and reading stays aligned.
    Statements only; model Model/ValueRead.v, proofs Proofs/ValueReadP.v.

    [dict] (data dictionary) and [rejects] (which element texts the
    Interpreted-strategy parsers refuse) are arbitrary functions: every theorem
    holds for all of them. [kind] is the decoder (0 Implicit VR LE, 1 Explicit
    VR LE, 2 Explicit VR BE, 3 adaptive), [strat] the value read strategy
    (0 Interpreted, 1 Preserved, 2 Raw), [odd] the odd length strategy
    (0 Accept, 1 NextEven, 2 Fail). Streams are arbitrary byte lists. *)
From DicomV Require Import Base.Prelude Base.Endian Model.ValueRead Proofs.ValueReadP.

(** ** Position accounting: for ALL byte streams, after every token.
    [st_pos] is the decoder's position(), [st_cons] the number of bytes taken
    from the source, [st_short] the bytes an item value (pixel fragment) lacked
    because the source had ended: read_to counts them although they were never
    read (known finding TruncatedItemValue). *)
Theorem C07_position : forall dict rejects kind strat odd base b fuel s,
  In s (fst (run dict rejects fuel kind strat odd (blen b) (init base b))) ->
  st_pos s = base + st_cons s + st_short s /\ (0 < st_short s -> st_cons s = blen b).
Proof.
  intros * H. eapply run_steps with (st := init base b); [exact (Inv_init base b) | exact H].
Qed.

(** Outside the known class the property's statement holds as it stands. *)
Theorem C07_position_outside_known : forall dict rejects kind strat odd base b fuel s,
  In s (fst (run dict rejects fuel kind strat odd (blen b) (init base b))) ->
  st_short s = 0 -> st_pos s = base + st_cons s.
Proof.
  intros * H Hs. apply C07_position in H. rewrite Hs in H. destruct H as [-> _]. apply N.add_0_r.
Qed.

(** In particular while the source still has bytes left. *)
Theorem C07_position_before_end : forall dict rejects kind strat odd base b fuel s,
  In s (fst (run dict rejects fuel kind strat odd (blen b) (init base b))) ->
  st_cons s < blen b -> st_pos s = base + st_cons s.
Proof.
  intros * H Hc. apply C07_position in H. destruct H as [H1 H2].
  destruct (N.eq_dec (st_short s) 0) as [E|E]; [rewrite E in H1; rewrite H1; apply N.add_0_r|].
  assert (0 < st_short s) as Hp by (destruct (st_short s); [contradiction|reflexivity]).
  specialize (H2 Hp). rewrite H2 in Hc. exfalso. revert Hc. apply N.lt_irrefl.
Qed.

(** The known class is real: a pixel fragment declared with 8 bytes of which
    the source only has 3 (Explicit VR LE). *)
Definition truncated_fragment : bytes :=
  [224;127;16;0; 79;66;0;0; 255;255;255;255;  254;255;0;224; 0;0;0;0;
   254;255;0;224; 8;0;0;0;  1;2;3].
Theorem C07_position_refuted :
  exists s, In s (fst (run (fun _ => None) (fun _ _ => false) 10 ELE 1 0
                           (blen truncated_fragment) (init 0 truncated_fragment)))
            /\ st_pos s <> st_cons s.
Proof.
  exists (mkStep (TItemValue [1;2;3]) 36 31 5). split; [vm_compute; tauto|discriminate].
Qed.

(** ** Every value reader consumes exactly the declared length — for every
    VR code, every length (odd, or not a multiple of the component size),
    each of the three value read strategies and every decoder. *)
Theorem C07_value_consumes_declared : forall rejects kind strat h d v d',
  read_value rejects kind strat h d = VOk v d' ->
  exists data, d_src d = data ++ d_src d' /\ blen data = h_len h
               /\ d_position d' = d_position d + h_len h /\ d_short d' = d_short d /\ d_vrst d' = d_vrst d.
Proof. exact read_value_consumes. Qed.

(** ... and does not fail when the bytes are there (other than for a sequence
    VR, or a text the interpreted parsers refuse). *)
Theorem C07_value_total : forall rejects kind strat h d,
  read_class strat (h_vr h) <> RErr -> h_len h <> UNDEF -> h_len h <= blen (d_src d) ->
  (forall data, rejects (h_vr h) data = false) ->
  exists v d', read_value rejects kind strat h d = VOk v d'.
Proof. exact read_value_total. Qed.

(** ** The three strategies *)
Theorem C07_accept : forall len, sanitize 0 len = Some len.
Proof. exact sanitize_accept. Qed.

Theorem C07_next_even : forall len,
  N.odd len = true -> len <> UNDEF -> sanitize 1 len = Some (len + 1).
Proof. exact sanitize_next_even. Qed.

Theorem C07_fail : forall len,
  N.odd len = true -> len <> UNDEF -> sanitize 2 len = None.
Proof. exact sanitize_fail. Qed.

(** The failing strategy reports InvalidElementLength (class 1) for an element
    header and InvalidItemLength (class 2) for an item header. *)
Theorem C07_fail_element : forall dict rejects fuel kind strat st h d,
  ready st -> dec_header dict kind (r_dec st) = DOk h d -> ~ (h_g h = 65534 /\ h_e h = 57357) ->
  N.odd (h_len h) = true -> h_len h <> UNDEF ->
  next dict rejects (S fuel) kind strat 2 st = NErr 1.
Proof. exact header_step_fail. Qed.

Theorem C07_fail_item : forall kind st len d,
  dec_item kind (r_dec st) = DIOk 0 len d -> N.odd len = true -> len <> UNDEF ->
  next_in_seq kind 2 st = NErr 2.
Proof. exact item_step_fail. Qed.

(** ** Realignment: element header token, then value token; afterwards the
    source stands exactly behind the L value bytes (L = declared length under
    Accept, declared + 1 under NextEven), so the next token is decoded from
    the next element of the stream. Holds for every VR that is not a sequence. *)
Theorem C07_realign : forall dict rejects fuel1 fuel2 kind strat odd st h d L data rest,
  ready st -> dec_header dict kind (r_dec st) = DOk h d -> plain h ->
  sanitize odd (h_len h) = Some L -> L <> UNDEF ->
  take L (d_src d) = Some (data, rest) ->
  read_class strat (h_vr h) <> RErr -> (forall b, rejects (h_vr h) b = false) ->
  exists st1 v st2,
    next dict rejects (S fuel1) kind strat odd st = NTok (TElem (h_g h) (h_e h) (h_vr h) L) st1
    /\ next dict rejects (S fuel2) kind strat odd st1 = NTok (TValue v) st2
    /\ d_src (r_dec st2) = rest
    /\ d_position (r_dec st2) = d_position d + L.
Proof. exact element_realign. Qed.

(** No VR is a sequence for the value readers except SQ itself: the hypothesis
    [read_class .. <> RErr] of the theorems above only excludes SQ. *)
Theorem C07_only_sq_excluded : forall strat vr, read_class strat vr = RErr -> vr = SQ.
Proof.
  intros strat vr. unfold read_class, class_common.
  repeat match goal with |- context [if ?c then _ else _] => destruct c eqn:? end; try discriminate;
    intros _; apply N.eqb_eq; assumption.
Qed.

(** ** The reader's loop terminates: `continue` (a stray item delimiter) never
    exhausts the fuel given by the stream length. *)
Theorem C07_next_terminates : forall dict rejects kind strat odd st,
  next dict rejects (next_fuel st) kind strat odd st <> NFuel.
Proof. intros. apply next_no_fuel. unfold next_fuel. apply Nat.lt_succ_diag_r. Qed.

(** Non-vacuity: an Explicit VR LE stream with a US value of length 3 followed
    by a PN element. Under Accept the four tokens come out aligned with
    position = consumed; under Fail the first token is the error. *)
Definition example_stream : bytes :=
  [40;0;16;0; 85;83;3;0; 1;0;9;  16;0;16;0; 80;78;2;0; 65;32].
Example C07_nonvacuous_accept :
  run (fun _ => None) (fun _ _ => false) 10 ELE 1 0 (blen example_stream) (init 0 example_stream)
  = ([mkStep (TElem 40 16 US 3) 8 8 0; mkStep (TValue (PNum 1 [1])) 11 11 0;
      mkStep (TElem 16 16 PN 2) 19 19 0; mkStep (TValue (PStrs [[65;32]])) 21 21 0], 0).
Proof. vm_compute. reflexivity. Qed.
Example C07_nonvacuous_fail :
  run (fun _ => None) (fun _ _ => false) 10 ELE 1 2 (blen example_stream) (init 0 example_stream) = ([], 1).
Proof. vm_compute. reflexivity. Qed.

Check C07_position : forall dict rejects kind strat odd base b fuel s,
  In s (fst (run dict rejects fuel kind strat odd (blen b) (init base b))) ->
  st_pos s = base + st_cons s + st_short s /\ (0 < st_short s -> st_cons s = blen b).
Check C07_position_outside_known : forall dict rejects kind strat odd base b fuel s,
  In s (fst (run dict rejects fuel kind strat odd (blen b) (init base b))) ->
  st_short s = 0 -> st_pos s = base + st_cons s.
Check C07_value_consumes_declared : forall rejects kind strat h d v d',
  read_value rejects kind strat h d = VOk v d' ->
  exists data, d_src d = data ++ d_src d' /\ blen data = h_len h
               /\ d_position d' = d_position d + h_len h /\ d_short d' = d_short d /\ d_vrst d' = d_vrst d.
Print Assumptions C07_position.
Print Assumptions C07_position_outside_known.
Print Assumptions C07_position_before_end.
Print Assumptions C07_position_refuted.
Print Assumptions C07_value_consumes_declared.
Print Assumptions C07_value_total.
Print Assumptions C07_accept.
Print Assumptions C07_next_even.
Print Assumptions C07_fail.
Print Assumptions C07_fail_element.
Print Assumptions C07_fail_item.
Print Assumptions C07_realign.
Print Assumptions C07_only_sq_excluded.
Print Assumptions C07_next_terminates.
