(** C33 — the storage SCU sends each file on a matching presentation context.
    Statements only; proofs are in Proofs/ScuChoiceP.v.

    Level: partial.  The theorems are about the decision function
    [check_presentation_contexts] (for EVERY registry capability table, list of
    accepted contexts, file and option setting) and the id/transfer-syntax
    bookkeeping of [send_file].  The binary, its sockets, the association
    negotiation (C28/C29), file reading, the data set writer and the
    transcoding codecs (C01/C19: [encode]/[decode] are Section variables) are
    outside the model and covered only by the correspondence run of the real
    [dicom-storescu] binary against a recording acceptor. *)
From DicomV Require Import Base.Str Model.ScuChoice Proofs.ScuChoiceP.

(** The context used is one the acceptor accepted ... *)
Theorem C33_member : forall reg f ign never pcs pc ts,
  choose reg f ign never pcs = Ok (pc, ts) -> In pc pcs.
Proof. intros. eapply choose_member. exact H. Qed.

(** ... its abstract syntax is the file's SOP class (unless the user asked to
    ignore the SOP class) ... *)
Theorem C33_abstract : forall reg f never pcs pc ts,
  choose reg f false never pcs = Ok (pc, ts) -> pc_abs pc = f_class f.
Proof. intros. eapply choose_abstract; [reflexivity|exact H]. Qed.

(** ... and the transfer syntax the data set is written in is the file's own,
    or one the tool converts to: codec-free to codec-free, or (transcoding
    allowed, file fully decodable) Explicit / Implicit VR Little Endian; in all
    cases it is the registry's entry for the context's negotiated syntax. *)
Theorem C33_ts : forall reg f ign never pcs pc ts,
  choose reg f ign never pcs = Ok (pc, ts) ->
  exists fts, reg_get reg (f_ts f) = Some fts /\ ts_legit reg never fts pc ts.
Proof. intros. eapply choose_ts_legit. exact H. Qed.

(** No needless conversion: when a context of the right class with exactly the
    file's transfer syntax was accepted, the file goes out in its own syntax. *)
Theorem C33_exact_preferred : forall reg f ign never pcs fts pc0,
  reg_get reg (f_ts f) = Some fts -> In pc0 pcs -> class_ok f ign pc0 = true -> pc_ts pc0 = t_uid fts ->
  exists pc, choose reg f ign never pcs = Ok (pc, t_uid fts).
Proof. intros. eapply choose_exact_preferred; eassumption. Qed.

(** "No presentation context" is only answered when no accepted context of the
    file's class is usable by any of the three stages. *)
Theorem C33_refusal_justified : forall reg f ign never pcs,
  choose reg f ign never pcs = Err E_NO_PC ->
  exists fts, reg_get reg (f_ts f) = Some fts /\
    forall pc, In pc pcs -> class_ok f ign pc = true ->
      compatible reg f ign fts pc = false
      /\ (never = true \/ t_decode_all fts = false \/ (pc_ts pc <> ELE /\ pc_ts pc <> ILE)).
Proof.
  intros reg f ign never pcs H. destruct (choose_err_no_pc _ _ _ _ _ _ H) as [fts [Ef Hall]].
  exists fts. split; [exact Ef|]. intros pc Hin Hc. destruct (Hall pc Hin Hc) as [H1 H2].
  split; [exact H1|]. destruct H2 as [H2|[H2|[H2 H3]]]; [left; exact H2|right; left; exact H2|].
  right. right. split; [exact H2|apply H3; reflexivity].
Qed.

(** What goes on the wire for a chosen (context, syntax): command and data set
    both carry the chosen context's id, and the data decodes, in the chosen
    transfer syntax, to the file's data set — given a data set codec that
    round-trips (Section hypothesis of Proofs/ScuChoiceP.v, discharged for the
    real codecs by C01/C19, not here). *)
Theorem C33_sent : forall (DS : Type) (encode : str -> DS -> bytes) (decode : str -> bytes -> option DS),
  (forall ts ds, decode ts (encode ts ds) = Some ds) ->
  forall pc ts ds,
  exists data, send_file DS encode (Ok (pc, ts)) ds = Some (pc_id pc, pc_id pc, data) /\ decode ts data = Some ds.
Proof. intros. eapply send_file_decodes. exact H. Qed.

(** The code before the repair (commit in KNOWN_FINDINGS.txt) broke
    [C33_abstract]: a CT file in Explicit VR LE, when only an MR context with
    Implicit VR LE was accepted, went out on the MR context. *)
Theorem C33_abstract_refuted_before_fix :
  exists reg f never pcs pc ts,
    old_choose reg f false never pcs = Ok (pc, ts) /\ pc_abs pc <> f_class f.
Proof.
  exists [mk_ts ILE true true; mk_ts ELE true true], (mk_file [67; 84] ELE), false,
         [mk_pc 5 ILE [77; 82]], (mk_pc 5 ILE [77; 82]), ILE.
  split; [vm_compute; reflexivity|cbn; discriminate].
Qed.

(** Non-vacuity: the same situation with the repaired code is refused, and
    with a CT context accepted the file is sent on it, converted to Implicit VR LE. *)
Example C33_nonvacuous :
  let reg := [mk_ts ILE true true; mk_ts ELE true true] in
  let f := mk_file [67; 84] ELE in
  choose reg f false false [mk_pc 5 ILE [77; 82]] = Err E_NO_PC
  /\ choose reg f false false [mk_pc 5 ILE [77; 82]; mk_pc 7 ILE [67; 84]] = Ok (mk_pc 7 ILE [67; 84], ILE).
Proof. split; vm_compute; reflexivity. Qed.

Check C33_abstract : forall reg f never pcs pc ts,
  choose reg f false never pcs = Ok (pc, ts) -> pc_abs pc = f_class f.
Check C33_member : forall reg f ign never pcs pc ts,
  choose reg f ign never pcs = Ok (pc, ts) -> In pc pcs.
Check C33_ts : forall reg f ign never pcs pc ts,
  choose reg f ign never pcs = Ok (pc, ts) ->
  exists fts, reg_get reg (f_ts f) = Some fts /\ ts_legit reg never fts pc ts.
Print Assumptions C33_member.
Print Assumptions C33_abstract.
Print Assumptions C33_ts.
Print Assumptions C33_exact_preferred.
Print Assumptions C33_refusal_justified.
Print Assumptions C33_sent.
Print Assumptions C33_abstract_refuted_before_fix.
