(** C03 — Element and item headers follow the PS3.5 wire layout.
    Statements only; proofs are in Proofs/HeaderP.v. The layout
    [ps35_header] and the lists [ps35_len16_vrs], [ps35_defined_codes] are
    written from the standard in Spec/Ps35.v; [enc_header]/[dec_header] are the
    model of the dicom-rs encoders/decoders (Model/Header.v). *)
From DicomV Require Import Base.Endian Model.Vr Model.Header Spec.Ps35 Proofs.HeaderP
  Gen.GenVrCodes Gen.GenHeaderLayout.
Open Scope N_scope.

(** The 16-bit length form is used exactly for these VRs (stated literally). *)
Theorem C03_len16_list :
  ps35_len16_vrs = [AE; AS; AT; CS; DA; DS; DT; FL; FD; IS; LO; LT; PN; SH; SL; SS; ST; TM; UI; UL; US]
  /\ forall v, short_vr v = true <-> In v ps35_len16_vrs.
Proof.
  split; [reflexivity|]. intros v; split.
  - destruct v; cbn; intros H; try discriminate; tauto.
  - cbn. intros H. repeat (destruct H as [<- | H]; [reflexivity|]). contradiction.
Qed.

(** Encoding: for every codec, tag, VR and length that fits the length field,
    the encoder writes exactly the PS3.5 layout (Table 7.1-1/-2/-3) and
    returns its size. *)
Theorem C03_layout : forall c t v len,
  (c <> ILE -> In v ps35_len16_vrs -> len <= 65535) ->
  enc_header c t v len = Ok (ps35_header c t v len, N.of_nat (length (ps35_header c t v len))).
Proof.
  intros c t v len H. apply enc_header_layout. intros Hc Hs. apply H; [exact Hc|].
  apply C03_len16_list. rewrite short_vr_ps35. exact Hs.
Qed.

(** 8 bytes for implicit VR and the 16-bit form, 12 bytes otherwise. *)
Theorem C03_size : forall c t v len,
  length (ps35_header c t v len) =
  match c with ILE => 8%nat | _ => if ps35_len16 v then 8%nat else 12%nat end.
Proof. exact ps35_header_length. Qed.

(** Decoding such a header (followed by anything) returns the same tag, VR and
    length, reports exactly the number of bytes of the layout, and leaves the
    rest. In implicit VR the VR is the dictionary's. Hypothesis group <> FFFE
    is forced: the explicit decoders read group FFFE as item headers (C03_items). *)
Theorem C03_decode : forall c dict t v len rest,
  wf_tag t -> len < 4294967296 ->
  (c <> ILE -> fst t <> 65534) ->
  (c <> ILE -> In v ps35_len16_vrs -> len <= 65535) ->
  dec_header c dict (ps35_header c t v len ++ rest) =
  Ok (t, match c with ILE => ile_vr dict t | _ => v end, len,
      N.of_nat (length (ps35_header c t v len)), rest).
Proof.
  intros c dict t v len rest Ht Hl Hg Hs. apply dec_header_layout; try assumption.
  intros Hc H16. apply Hs; [exact Hc|]. apply C03_len16_list. rewrite short_vr_ps35. exact H16.
Qed.

(** Composition: whatever the encoder accepts decodes to what was asked. *)
Theorem C03_roundtrip : forall c dict t v len b n rest,
  wf_tag t -> len < 4294967296 -> (c <> ILE -> fst t <> 65534) ->
  enc_header c t v len = Ok (b, n) ->
  dec_header c dict (b ++ rest) = Ok (t, match c with ILE => ile_vr dict t | _ => v end, len, n, rest)
  /\ n = N.of_nat (length b).
Proof.
  intros c dict t v len b n rest Ht Hl Hg He.
  destruct (enc_header_ok_inv _ _ _ _ _ _ He) as [-> [-> Hs]].
  split; [|reflexivity]. apply dec_header_layout; assumption.
Qed.

(** A 16-bit-length header whose length does not fit is rejected, never truncated. *)
Theorem C03_overflow : forall c t v len,
  c <> ILE -> In v ps35_len16_vrs -> 65535 < len -> enc_header c t v len = Err E_TooLong.
Proof.
  intros c t v len Hc Hv Hl. apply enc_header_overflow; try assumption.
  rewrite <- short_vr_ps35. apply C03_len16_list. exact Hv.
Qed.

(** A two-byte code is recognised iff it is one of the 34 defined codes
    (complete sweep of the 65536 codes). *)
Theorem C03_vr_codes : forall a b, a < 256 -> b < 256 ->
  (vr_of_bytes a b <> None <-> In [a; b] ps35_defined_codes).
Proof. exact vr_codes_iff. Qed.

Theorem C03_vr_code_roundtrip : forall v,
  vr_bytes v = ps35_vr_code v /\ vr_of_bytes (fst (vr_chars v)) (snd (vr_chars v)) = Some v.
Proof. intros v; split; [apply vr_bytes_ps35 | apply vr_of_bytes_chars]. Qed.

(** Items and delimiters are tag plus 32-bit length; decoding returns the kind,
    the length and the rest. *)
Theorem C03_items : forall c len rest, len < 4294967296 ->
  enc_item_header c len = ps35_item_header c len /\
  enc_item_delim c = ps35_item_delim c /\
  enc_seq_delim c = ps35_seq_delim c /\
  length (ps35_item_header c len) = 8%nat /\
  dec_item_header c (ps35_item_header c len ++ rest) = Ok (Item len, rest) /\
  dec_item_header c (ps35_item_delim c ++ rest) = Ok (ItemDelim, rest) /\
  dec_item_header c (ps35_seq_delim c ++ rest) = Ok (SeqDelim, rest).
Proof.
  intros c len rest Hl.
  split; [apply enc_item_header_ps35|]. split; [apply enc_item_delim_ps35|].
  split; [apply enc_seq_delim_ps35|].
  split; [unfold ps35_item_header; rewrite <- !u16_ps35, <- u32_ps35, !app_length, !u16_length, u32_length; reflexivity|].
  split; [apply dec_item_header_item; exact Hl|].
  split; [apply dec_item_header_item_delim | apply dec_item_header_seq_delim].
Qed.

(** The regenerated tables (behaviour of the code in /repo now) agree with the
    model on their complete domains: VR::from_binary on all 65536 codes,
    VR::to_bytes on all 34 VRs, and the header class at each of the places that
    carry the 16-bit list (3 encoders, 2 explicit decoders, adaptive decoder)
    plus the overflow behaviour of the 3 encoders. *)
Theorem C03_tables_agree :
  iv_tiles gen_vr_code_intervals 0 65536 = true /\
  (forall c, c < 65536 -> iv_lookup gen_vr_code_intervals c = Some (option_map vr_index (vr_of_code c))) /\
  gen_vr_to_bytes = map (fun v => (vr_index v, vr_chars v)) all_vrs /\
  gen_header_layout = map layout_row all_vrs.
Proof.
  split; [exact gen_vr_codes_tile|]. split; [exact gen_vr_codes_agree|].
  split; [exact gen_vr_to_bytes_agree | exact gen_header_layout_agree].
Qed.

(** Non-vacuity. *)
Example C03_nonvacuous :
  enc_header EBE (40, 16) US 2 = Ok ([0; 40; 0; 16; 85; 83; 0; 2], 8) /\
  enc_header ELE (32736, 16) OW 4294967295 = Ok ([224; 127; 16; 0; 79; 87; 0; 0; 255; 255; 255; 255], 12) /\
  dec_header ELE (fun _ => None) [16; 0; 16; 0; 80; 78; 6; 0; 1; 2] = Ok ((16, 16), PN, 6, 8, [1; 2]).
Proof. repeat split. Qed.

Check C03_layout : forall c t v len,
  (c <> ILE -> In v ps35_len16_vrs -> len <= 65535) ->
  enc_header c t v len = Ok (ps35_header c t v len, N.of_nat (length (ps35_header c t v len))).
Check C03_decode : forall c dict t v len rest,
  wf_tag t -> len < 4294967296 ->
  (c <> ILE -> fst t <> 65534) ->
  (c <> ILE -> In v ps35_len16_vrs -> len <= 65535) ->
  dec_header c dict (ps35_header c t v len ++ rest) =
  Ok (t, match c with ILE => ile_vr dict t | _ => v end, len,
      N.of_nat (length (ps35_header c t v len)), rest).
Check C03_overflow : forall c t v len,
  c <> ILE -> In v ps35_len16_vrs -> 65535 < len -> enc_header c t v len = Err E_TooLong.
Check C03_vr_codes : forall a b, a < 256 -> b < 256 ->
  (vr_of_bytes a b <> None <-> In [a; b] ps35_defined_codes).
Print Assumptions C03_len16_list.
Print Assumptions C03_layout.
Print Assumptions C03_size.
Print Assumptions C03_decode.
Print Assumptions C03_roundtrip.
Print Assumptions C03_overflow.
Print Assumptions C03_vr_codes.
Print Assumptions C03_vr_code_roundtrip.
Print Assumptions C03_items.
Print Assumptions C03_tables_agree.
