(** C04 — Encoded output is structurally valid DICOM with exact lengths and
    padding; reported byte counts are exact. Statements only.
    [ps35_valid], [canon_encode], [ps35_padded], [ps35_header] are the independent
    specification (Spec/Ps35.v); [write_dataset], [enc_prim_element], [enc_prim],
    [calc_byte_len] are the models of the dicom-rs code. *)
From DicomV Require Import Base.Endian Model.Vr Model.Header Model.Prim Model.Dataset Model.Writer Spec.Ps35
  Proofs.HeaderP Proofs.PrimP Proofs.WriterP Proofs.ValidP Proofs.FlatP Proofs.NestedP Proofs.ValidTreeP Proofs.CountP Proofs.NestedGP Proofs.ValidTreeGP
  Model.File Proofs.FileP Gen.GenTsWrite.
From Coq Require Import String.
From DicomV Require Model.Meta Proofs.MetaP.
Open Scope N_scope.

(** Every byte count returned by [BasicEncode::encode_primitive] equals the
    number of bytes written, for every variant of PrimitiveValue, both byte orders. *)
Theorem C04_counts : forall c p, snd (enc_prim c p) = blen (fst (enc_prim c p)).
Proof. exact enc_prim_count. Qed.

(** [calculate_byte_len] is the number of bytes written, rounded up to even for
    the delimited text-like variants (Strs, Date, Time, DateTime). Hypothesis
    [wf_prim]: date/time components in their printable range and UTC offsets in
    whole minutes. *)
Theorem C04_byte_len : forall c p, wf_prim p ->
  calc_byte_len p =
  match p with
  | PStrs _ | PDate _ | PTime _ | PDateTime _ => even_up (blen (fst (enc_prim c p)))
  | _ => blen (fst (enc_prim c p))
  end.
Proof. exact calc_byte_len_ok. Qed.

(** Without that hypothesis the statement is false: a UTC offset with seconds
    prints as +HHMMSS (7 bytes) while [dt_byte_len] counts 5 (known finding
    DateTimeOffsetWithSeconds). *)
Theorem C04_byte_len_refuted : exists p,
  calc_byte_len p <> even_up (blen (fst (enc_prim ELE p))) /\ exists l, p = PDateTime l.
Proof.
  exists (PDateTime [{| dt_date := DYear 2020; dt_time := None; dt_tz := Some (false, 3630) |}]).
  split; [vm_compute; discriminate | eexists; reflexivity].
Qed.

(** One element: whatever [encode_primitive_element] accepts is the PS3.5
    header carrying exactly the number of value bytes that follow, that number
    is even, and the value is the raw value padded with the VR-specific byte
    (NUL for UI and the binary VRs, SPACE for the other text VRs);
    a 16-bit length field is never exceeded. *)
Theorem C04_element : forall c t v p b,
  typed v p = true -> wf_prim p -> blen (raw_value c v p) < 4294967295 ->
  enc_prim_element c t v p = Ok b ->
  b = ps35_header c t v (blen (ps35_padded v (raw_value c v p))) ++ ps35_padded v (raw_value c v p)
  /\ blen (ps35_padded v (raw_value c v p)) mod 2 = 0
  /\ (c <> ILE -> ps35_len16 v = true -> blen (ps35_padded v (raw_value c v p)) <= 65535).
Proof.
  intros c t v p b T W H E. destruct (enc_prim_element_shape c t v p b T W H E) as [S K].
  split; [exact S|]. split; [apply ps35_padded_even | exact K].
Qed.

Theorem C04_pad_byte : forall v,
  ps35_pad v = match v with
               | UI => 0
               | AE | AS | CS | DA | DS | DT | IS | LO | LT | PN | SH | ST | TM | UC | UR | UT => 32
               | _ => 0 end.
Proof. destruct v; reflexivity. Qed.

(** Flat data sets (primitive elements of any VR): every stream the writer
    produces is accepted by the independent structural validator, and equals
    the reference encoding of the padded values, for every codec, both
    strategies and either value of the charset-changed flag. *)
Theorem C04_valid_flat : forall c nochange inv is_sq es b,
  Forall (elem_ok c is_sq) es -> write_dataset c nochange inv es = Ok b ->
  ps35_valid c is_sq b = true /\ b = canon_encode c (map (to_c c) es).
Proof.
  intros c nc inv is_sq es b H E. split;
    [exact (write_flat_valid c nc inv is_sq es b H E) | exact (write_flat_canon c nc inv is_sq es b H E)].
Qed.

(** The validator accepts every canonical flat stream (spec-level lemma). *)
Theorem C04_spec_valid_flat : forall c is_sq es,
  all_cprim_ok c is_sq es -> ps35_valid c is_sq (canon_encode c es) = true.
Proof. exact ps35_valid_flat. Qed.

(** Nested data sets, default strategy (SetUndefined), any depth: the bytes
    the writer produces are exactly the direct recursive description
    [enc_trees]: a sequence is its header with undefined length, each item an
    undefined-length item header, its elements and an item delimiter, then the
    sequence delimiter; encapsulated pixel data is header, offset-table item,
    fragment items with their explicit even lengths, sequence delimiter; no
    writer state leaks between elements (mutual structural induction over
    elements / element lists / item lists). This is the "W" half of the nested
    theorem; that [ps35_valid] accepts these streams is NOT proved. *)
Theorem C04_write_nested_partial : forall c es,
  Forall regular es -> write_dataset c false false es = enc_trees (elems_size es) c es.
Proof. exact write_dataset_nested. Qed.

Theorem C04_nested_sequence_shape : forall f c t v l its,
  enc_tree (S f) c (ESeq t v l its) =
  obind (st_enc_header c t SQ undef) (fun h => obind (enc_items f c its) (fun body => Ok (h ++ body ++ enc_seq_delim c))).
Proof. exact enc_tree_seq. Qed.

(** [StatefulEncoder::bytes_written]. The model keeps the counter as the code
    does: it adds the count RETURNED by [encode_element_header] and
    [encode_primitive], the constant 8 for item headers and delimiters, and the
    lengths of the buffers it writes itself ([count_token], [count_prim_element]).
    Invariant: if the counter equals the number of bytes written before a token
    list, it equals the number of bytes written after it, for every token list,
    codec and strategy (by induction over the tokens, so in particular after
    every single token). *)
Theorem C04_bytes_written : forall c nochange tks st st',
  write_tokens c nochange st tks = Ok st' ->
  write_tokens_counted c nochange st (blen (w_out st)) tks = Ok (st', blen (w_out st')).
Proof. intros c nc tks. exact (bytes_written_invariant c nc tks). Qed.

Theorem C04_bytes_written_token : forall c nochange st tk st',
  write_token c nochange st tk = Ok st' ->
  exists k, count_token c nochange st tk = Ok k /\ blen (w_out st') = blen (w_out st) + k.
Proof. exact count_token_ok. Qed.

Theorem C04_bytes_written_element : forall c t v p b,
  enc_prim_element c t v p = Ok b -> count_prim_element c t v p = Ok (blen b).
Proof. exact count_prim_element_ok. Qed.

(** NESTED data sets (sequences and items of any depth, encapsulated pixel data
    with offset table and fragments), default strategy (every sequence/item
    gets an undefined length and its delimiter), every codec: every stream the
    writer produces is accepted by the independent structural validator
    [ps35_valid] (lengths even and exact, undefined-length sequences and items
    closed by the matching zero-length delimiters, fragments with defined even
    lengths closed by a sequence delimiter). [vable]: primitive elements as in
    the flat theorem; sequence tags outside group FFFE; in implicit VR [is_sq]
    tells the validator which tags are sequences (true for the sequence tags,
    false for Pixel Data). Proof: writer = direct recursive encoding
    (Proofs/NestedP.v) + validator over that encoding by mutual structural
    induction (Proofs/ValidTreeP.v). *)
Theorem C04_valid_nested : forall c is_sq es b,
  Forall (vable c is_sq) es -> write_dataset c false false es = Ok b -> ps35_valid c is_sq b = true.
Proof.
  intros c is_sq es b V W. apply (write_tree_valid c is_sq es b V); [|exact W].
  eapply Forall_impl; [apply (vable_regular c is_sq) | exact V].
Qed.

Example C04_nested_nonvacuous :
  Forall (vable ELE (fun _ => false))
    [ EPrim (16, 16) PN 0 (PStrs [[68; 111; 101]]);
      ESeq (64, 629) SQ 0 [ (0, [EPrim (8, 256) SH 0 (PStrs [[65]]); ESeq (8, 4416) SQ 0 [(0, [])]]); (0, []) ];
      EPix pixel_tag OB undef [] [[1; 2]; []] ].
Proof.
  repeat constructor; unfold elem_ok, plain, wf_tag;
    repeat (split || constructor); cbn; try reflexivity; try discriminate; try lia; try (intros; discriminate).
Qed.

(** BOTH strategies, defined lengths included: for nested data sets of any depth
    (and encapsulated pixel data) whose defined written lengths [wl nochange l]
    (the recorded lengths under NoChange; none under SetUndefined) are even and
    equal the actual length of the content they announce, every stream the
    writer produces is accepted by [ps35_valid]: defined-length items and
    sequences end exactly where their length says, undefined-length ones are
    closed by the matching delimiters (Proofs/NestedGP.v + ValidTreeGP.v). *)
Theorem C04_valid_nested_both : forall c is_sq nochange es b,
  Forall (vable_g c is_sq nochange) es ->
  write_dataset c nochange false es = Ok b -> ps35_valid c is_sq b = true.
Proof. exact write_tree_valid_g. Qed.

Example C04_defined_nonvacuous :
  Forall (vable_g ELE (fun _ => false) true)
    [ ESeq (8, 4416) SQ 18 [(10, [EPrim (40, 16) US 2 (PU16 [512])])]; ESeq (64, 629) SQ 0 [] ]
  /\ ps35_valid ELE (fun _ => false)
       [8; 0; 64; 17; 83; 81; 0; 0; 18; 0; 0; 0; 254; 255; 0; 224; 10; 0; 0; 0; 40; 0; 16; 0; 85; 83; 2; 0; 0; 2;
        64; 0; 117; 2; 83; 81; 0; 0; 0; 0; 0; 0] = true.
Proof.
  split; [|vm_compute; reflexivity].
  constructor; [|constructor; [|constructor]].
  - constructor; try (unfold wf_tag; cbn; lia); try discriminate.
    + right. cbn. split; [lia | reflexivity].
    + intros f body E. destruct f as [|f]; [discriminate E|]. right. vm_compute in E. inversion E. reflexivity.
    + constructor; [|constructor]. cbn [fst snd]. split; [right; cbn; split; [lia | reflexivity]|].
      split; [intros f body E; destruct f as [|f]; [discriminate E|]; right; vm_compute in E; inversion E; reflexivity|].
      constructor; [|constructor]. constructor.
      unfold elem_ok, plain, wf_tag. cbn. repeat split; try reflexivity; try lia; try discriminate; intros; discriminate.
  - constructor; try (unfold wf_tag; cbn; lia); try discriminate.
    + right. cbn. split; [lia | reflexivity].
    + intros f body E. right. vm_compute in E. inversion E. reflexivity.
    + constructor.
Qed.

(** Full statement, kept visible. C04_valid_nested_both proves it for [wf_dataset] = [vable_g] (both strategies,
    charset flag off); the charset-changed flag with nesting is covered by the correspondence only. *)
Definition C04_valid_full_statement : Prop :=
  forall c nochange inv is_sq (wf_dataset : codec -> bool -> list elem -> Prop) es b,
    wf_dataset c nochange es -> write_dataset c nochange inv es = Ok b -> ps35_valid c is_sq b = true.

(** Non-vacuity: a flat data set meeting the hypotheses, its bytes, and the validator on them;
    the validator rejects an odd length and a missing delimiter. *)
Example C04_nonvacuous :
  let es := [EPrim (16, 16) PN 0 (PStrs [[68; 111; 101]]); EPrim (40, 16) US 0 (PU16 [512])] in
  write_dataset ELE false false es = Ok [16; 0; 16; 0; 80; 78; 4; 0; 68; 111; 101; 32; 40; 0; 16; 0; 85; 83; 2; 0; 0; 2]
  /\ ps35_valid ELE (fun _ => false) [16; 0; 16; 0; 80; 78; 4; 0; 68; 111; 101; 32; 40; 0; 16; 0; 85; 83; 2; 0; 0; 2] = true
  /\ ps35_valid ELE (fun _ => false) [16; 0; 16; 0; 80; 78; 3; 0; 68; 111; 101] = false
  /\ ps35_valid ELE (fun _ => false) [8; 0; 64; 17; 83; 81; 0; 0; 255; 255; 255; 255; 254; 255; 0; 224; 255; 255; 255; 255; 254; 255; 13; 224; 0; 0; 0; 0] = false
  /\ ps35_valid ELE (fun _ => false) [8; 0; 64; 17; 83; 81; 0; 0; 255; 255; 255; 255; 254; 255; 0; 224; 255; 255; 255; 255; 254; 255; 13; 224; 0; 0; 0; 0; 254; 255; 221; 224; 0; 0; 0; 0] = true.
Proof. vm_compute. repeat split. Qed.


(** * Whole files ([FileDicomObject::write_all] / [write_to_file]; [write_meta] and
    [write_dataset] are its two halves). [write_file] is the model (Model/File.v)
    over the obj engineer's model of [FileMetaTable::write] (Model/Meta.v) and
    the data set writer model; [reg] is the transfer syntax registry, [deflate]
    the compressor of the data set adapter.
    For an up-to-date ASCII meta table and ANY data set, a written file is
    exactly  128 zero bytes ++ "DICM" ++ meta group ++ body  where
    - the meta group is accepted by [ps35_valid] in Explicit VR LE,
    - its group length field equals the number of bytes that follow the
      12-byte group length element (C09_group_length of the obj engineer),
    - the body is the data set written in the encoding [c] that the registry
      gives for the table's Transfer Syntax UID (trailing padding ignored),
      passed through [deflate] when the registry entry has a data set adapter,
    - and that data set stream is accepted by [ps35_valid] in [c] whenever the
      data set is well formed ([vable], as in C04_valid_nested). *)
Theorem C04_file : forall reg deflate t obj f is_sq,
  Meta.up_to_date t -> Meta.ascii_table t = true -> MetaP.small t ->
  write_file reg deflate t false obj = Ok f ->
  exists m ci kind c body,
    Meta.write_meta t = Ok m /\
    reg_get reg (Meta.trim_pad (Meta.m_ts t)) = Some (ci, kind) /\ kind <> 2 /\ enc_of_index ci = Some c /\
    write_dataset c false false obj = Ok body /\
    f = file_preamble ++ file_magic ++ m ++ (if kind =? 1 then deflate body else body) /\
    List.length file_preamble = 128%nat /\ file_magic = ascii_bytes "DICM"%string /\
    ps35_valid ELE (fun _ => false) m = true /\
    Meta.m_glen t = Meta.blen (skipn 12 m) /\
    (Forall (vable c is_sq) obj -> ps35_valid c is_sq body = true).
Proof.
  intros reg deflate t obj f is_sq Hu Ha Hs W.
  destruct (write_file_shape reg deflate t false obj f W) as (m & ci & kind & c & body & Wm & Rg & K & Ec & Wd & Ef).
  exists m, ci, kind, c, body. repeat split; try assumption; try reflexivity.
  - exact (write_meta_valid _ t m Ha Hs Wm).
  - apply MetaP.group_length_matches; assumption.
  - intros V. exact (C04_valid_nested c is_sq obj body V Wd).
Qed.

(** The registry rows behind "the transfer syntax named by the meta group"
    (Gen/GenTsWrite.v, regenerated from the real registry on every run; every
    row is also exercised by a written file in the correspondence check):
    the three uncompressed syntaxes of PS3.5 Annex A.1-A.3 are written in their
    own encoding without adapter, Deflated Explicit VR LE (A.5) in Explicit VR
    LE through an adapter; every other registered syntax is written in Explicit
    VR LE (A.4) or refused. *)
Definition uid_ile : list N := ascii_bytes "1.2.840.10008.1.2"%string.
Definition uid_ele : list N := ascii_bytes "1.2.840.10008.1.2.1"%string.
Definition uid_ebe : list N := ascii_bytes "1.2.840.10008.1.2.2"%string.
Definition uid_deflated : list N := ascii_bytes "1.2.840.10008.1.2.1.99"%string.
Definition annex_a_rows : list (list N * codec * bool) :=
  [(uid_ile, ILE, false); (uid_ele, ELE, false); (uid_ebe, EBE, false); (uid_deflated, ELE, true)].
Definition codec_index (c : codec) : N := match c with ILE => 0 | ELE => 1 | EBE => 2 end.

Theorem C04_file_registry :
  forallb (fun r : list N * codec * bool =>
             match reg_get gen_ts_write (fst (fst r)) with
             | Some (ci, kind) => (ci =? codec_index (snd (fst r))) && (kind =? if snd r then 1 else 0)
             | None => false
             end) annex_a_rows = true /\
  forallb (fun r : list N * (N * N) =>
             (if list_eqb N.eqb (fst r) uid_ile then fst (snd r) =? 0
              else if list_eqb N.eqb (fst r) uid_ebe then fst (snd r) =? 2 else fst (snd r) =? 1)
             && (snd (snd r) <? 3)) gen_ts_write = true.
Proof. split; vm_cast_no_check (eq_refl true). Qed.

(** The statement for the transfer syntaxes of Annex A.1-A.3 and A.5 with the real registry table. *)
Theorem C04_file_annex_a : forall deflate t obj f is_sq uid c d,
  In (uid, c, d) annex_a_rows -> Meta.trim_pad (Meta.m_ts t) = uid ->
  Meta.up_to_date t -> Meta.ascii_table t = true -> MetaP.small t ->
  write_file gen_ts_write deflate t false obj = Ok f ->
  exists m body,
    f = file_preamble ++ file_magic ++ m ++ (if d then deflate body else body) /\
    Meta.write_meta t = Ok m /\ ps35_valid ELE (fun _ => false) m = true /\
    Meta.m_glen t = Meta.blen (skipn 12 m) /\
    write_dataset c false false obj = Ok body /\
    (Forall (vable c is_sq) obj -> ps35_valid c is_sq body = true).
Proof.
  intros deflate t obj f is_sq uid c d Hin Hts Hu Ha Hs W.
  destruct (C04_file gen_ts_write deflate t obj f is_sq Hu Ha Hs W)
    as (m & ci & kind & c' & body & Wm & Rg & K & Ec & Wd & Ef & _ & _ & Vm & Gl & Vb).
  rewrite Hts in Rg.
  assert (X : ci = codec_index c /\ kind = if d then 1 else 0).
  { pose proof (proj1 (forallb_forall _ _) (proj1 C04_file_registry) _ Hin) as R. cbn [fst snd] in R.
    rewrite Rg in R. apply andb_prop in R. destruct R as [R1 R2].
    apply N.eqb_eq in R1, R2. split; assumption. }
  destruct X as [-> ->].
  assert (c' = c) by (destruct c; cbn in Ec; inversion Ec; reflexivity). subst c'.
  exists m, body. repeat split; try assumption.
  rewrite Ef. destruct d; reflexivity.
Qed.

(** Non-vacuity: a table built by the builder's defaults and a nested data set; the file computed by the model. *)
Example C04_file_nonvacuous :
  let t := Meta.update_glen (Meta.mk_meta 0 (0, 1) [ascii_bytes "1.2.840.10008.5.1.4.1.1.7"%string ++ [0]; ascii_bytes "1.2.3.4"%string; uid_ebe ++ [0]; ascii_bytes "1.2.3.99"%string ]
                               [Some (ascii_bytes "VERIF"%string ++ [32]); None; None; None; None] None) in
  let obj := [EPrim (16, 16) PN 0 (PStrs [[68; 111; 101]]); ESeq (64, 629) SQ 0 [(0, [EPrim (8, 256) SH 0 (PStrs [[65]])])]] in
  Meta.up_to_date t /\ Meta.ascii_table t = true /\ MetaP.small t /\ Meta.trim_pad (Meta.m_ts t) = uid_ebe /\
  Forall (vable EBE (fun _ => false)) obj /\
  match write_file gen_ts_write (fun b => b) t false obj with
  | Ok f => List.length f = 324%nat /\ firstn 4 (skipn 128 f) = [68; 73; 67; 77]
  | _ => False
  end.
Proof.
  cbv zeta. split; [reflexivity|]. split; [vm_compute; reflexivity|]. split; [vm_compute; repeat split; reflexivity|].
  split; [vm_compute; reflexivity|]. split.
  - repeat constructor; unfold elem_ok, plain, wf_tag;
      repeat (split || constructor); cbn; try reflexivity; try discriminate; try lia; try (intros; discriminate).
  - vm_compute. split; reflexivity.
Qed.

Check C04_counts : forall c p, snd (enc_prim c p) = blen (fst (enc_prim c p)).
Check C04_valid_nested_both : forall c is_sq nochange es b,
  Forall (vable_g c is_sq nochange) es ->
  write_dataset c nochange false es = Ok b -> ps35_valid c is_sq b = true.
Check C04_valid_nested : forall c is_sq es b,
  Forall (vable c is_sq) es -> write_dataset c false false es = Ok b -> ps35_valid c is_sq b = true.
Check C04_valid_flat : forall c nochange inv is_sq es b,
  Forall (elem_ok c is_sq) es -> write_dataset c nochange inv es = Ok b ->
  ps35_valid c is_sq b = true /\ b = canon_encode c (map (to_c c) es).
Check C04_element : forall c t v p b,
  typed v p = true -> wf_prim p -> blen (raw_value c v p) < 4294967295 ->
  enc_prim_element c t v p = Ok b ->
  b = ps35_header c t v (blen (ps35_padded v (raw_value c v p))) ++ ps35_padded v (raw_value c v p)
  /\ blen (ps35_padded v (raw_value c v p)) mod 2 = 0
  /\ (c <> ILE -> ps35_len16 v = true -> blen (ps35_padded v (raw_value c v p)) <= 65535).
Check C04_file : forall reg deflate t obj f is_sq,
  Meta.up_to_date t -> Meta.ascii_table t = true -> MetaP.small t ->
  write_file reg deflate t false obj = Ok f ->
  exists m ci kind c body,
    Meta.write_meta t = Ok m /\
    reg_get reg (Meta.trim_pad (Meta.m_ts t)) = Some (ci, kind) /\ kind <> 2 /\ enc_of_index ci = Some c /\
    write_dataset c false false obj = Ok body /\
    f = file_preamble ++ file_magic ++ m ++ (if kind =? 1 then deflate body else body) /\
    List.length file_preamble = 128%nat /\ file_magic = ascii_bytes "DICM"%string /\
    ps35_valid ELE (fun _ => false) m = true /\
    Meta.m_glen t = Meta.blen (skipn 12 m) /\
    (Forall (vable c is_sq) obj -> ps35_valid c is_sq body = true).
Check C04_file_annex_a : forall deflate t obj f is_sq uid c d,
  In (uid, c, d) annex_a_rows -> Meta.trim_pad (Meta.m_ts t) = uid ->
  Meta.up_to_date t -> Meta.ascii_table t = true -> MetaP.small t ->
  write_file gen_ts_write deflate t false obj = Ok f ->
  exists m body,
    f = file_preamble ++ file_magic ++ m ++ (if d then deflate body else body) /\
    Meta.write_meta t = Ok m /\ ps35_valid ELE (fun _ => false) m = true /\
    Meta.m_glen t = Meta.blen (skipn 12 m) /\
    write_dataset c false false obj = Ok body /\
    (Forall (vable c is_sq) obj -> ps35_valid c is_sq body = true).
Print Assumptions C04_file.
Print Assumptions C04_file_registry.
Print Assumptions C04_file_annex_a.
Print Assumptions C04_counts.
Print Assumptions C04_byte_len.
Print Assumptions C04_byte_len_refuted.
Print Assumptions C04_element.
Print Assumptions C04_pad_byte.
Print Assumptions C04_valid_flat.
Print Assumptions C04_spec_valid_flat.
Print Assumptions C04_write_nested_partial.
Print Assumptions C04_valid_nested.
Print Assumptions C04_valid_nested_both.
Print Assumptions C04_bytes_written.
Print Assumptions C04_bytes_written_token.
Print Assumptions C04_bytes_written_element.
Print Assumptions C04_nested_sequence_shape.
