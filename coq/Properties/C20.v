(** C20 — RLE Lossless decoding reproduces the encoded samples.
    Statements only; proofs are in Proofs/RleP.v. The encoder side is the
    independent specification Spec/AnnexG.v (PS3.5 Annex G): [packbits_enc]
    admits every split of a byte segment into literal and replicate runs
    (1..128 / 2..128 bytes, runs of any length by composition, -128 no-ops
    anywhere), [annexg_enc bps spp pixels frag] every fragment obtained from
    the frame [pixels] (list of pixels, each a list of [spp] sample values,
    [bps] bytes per sample) by such a segmentation of each byte segment, most
    significant byte plane first, zero padding to even length, 64-byte header. *)
From DicomV Require Import Base.Prelude Base.Endian Model.Rle Spec.AnnexG Proofs.RleP.

(** PackBits: the decoder inverts every run segmentation, with or without the pad byte. *)
Theorem C20_packbits : forall d b, packbits_enc d b -> unpack b = Ok d.
Proof. exact unpack_enc. Qed.
Theorem C20_packbits_padded : forall d b, packbits_enc d b -> unpack (pad_even b) = Ok d.
Proof. exact unpack_pad_even. Qed.

(** One frame: 8 or 16 bits allocated ([bps] = 1, 2), any number of samples
    per pixel with at most 15 segments, any rows x columns: decoding fragment
    [f] yields the little-endian, pixel-interleaved samples of the frame. *)
Theorem C20_frame : forall o f bps spp pixels frag,
  o_bits o = 8 * N.of_nat bps -> (bps = 1 \/ bps = 2)%nat -> o_spp o = N.of_nat spp ->
  (1 <= spp * bps <= 15)%nat ->
  (N.to_nat (o_rows o) * N.to_nat (o_cols o))%nat = length pixels -> wf_frame spp pixels ->
  nth_error (o_frags o) (N.to_nat f) = Some frag ->
  annexg_enc bps spp pixels frag -> len frag < 2 ^ 32 ->
  decode_frame o f = Ok (native_frame bps pixels).
Proof. exact decode_frame_annexg. Qed.

(** The whole-object result is the concatenation of the per-frame results, for
    ANY fragments (valid or not): same value, or the failure of the first
    failing frame. *)
Theorem C20_concat : forall o,
  bits_ok (o_bits o) = true ->
  decode o = concat_frames (map (decode_frame o) (frame_indices o)).
Proof. exact decode_concat. Qed.

(** Whole object, any number of frames. *)
Theorem C20_whole : forall o bps spp frames,
  o_bits o = 8 * N.of_nat bps -> (bps = 1 \/ bps = 2)%nat -> o_spp o = N.of_nat spp ->
  (1 <= spp * bps <= 15)%nat ->
  Forall2 (encodes o bps spp) frames (o_frags o) ->
  decode o = Ok (concat (map (native_frame bps) frames)).
Proof. exact decode_whole_annexg. Qed.

(** Non-vacuity. A run segmentation with a no-op, a replicate run and a literal run: *)
Example C20_packbits_nonvacuous : packbits_enc [7; 7; 7; 9] [128; 254; 7; 0; 9].
Proof.
  apply pb_noop. apply (pb_replicate 7 3 [9] [0; 9]); [lia|].
  apply (pb_literal [9] [] []); [cbn; lia|constructor].
Qed.
(** the 2x2 8-bit monochrome frame of the original defect report ([10,20,30,40] used to
    decode to [0,10,20,30]) and a 16-bit RGB pixel (bytes used to come out swapped) *)
Definition ex_mono : rle_obj :=
  {| o_rows := 2; o_cols := 2; o_spp := 1; o_bits := 8;
     o_frags := [rle_fragment [pad_even [3; 10; 20; 30; 40]]] |}.
Example C20_frame_nonvacuous :
  annexg_enc 1 1 [[10]; [20]; [30]; [40]] (rle_fragment [pad_even [3; 10; 20; 30; 40]]) /\
  decode_frame ex_mono 0 = Ok [10; 20; 30; 40] /\ decode ex_mono = Ok [10; 20; 30; 40].
Proof.
  split; [|split; vm_compute; reflexivity].
  apply (annexg_intro 1 1 [[10]; [20]; [30]; [40]] [[3; 10; 20; 30; 40]]).
  constructor; [|constructor]. apply (pb_literal [10; 20; 30; 40] [] []); [cbn; lia|constructor].
Qed.
Definition ex_rgb16 : rle_obj :=
  {| o_rows := 1; o_cols := 1; o_spp := 3; o_bits := 16;
     o_frags := [rle_fragment (map pad_even [[0; 17]; [0; 33]; [0; 49]; [0; 65]; [0; 81]; [0; 97]])] |}.
Example C20_rgb16_nonvacuous :
  annexg_enc 2 3 [[4385; 12609; 20833]]
    (rle_fragment (map pad_even [[0; 17]; [0; 33]; [0; 49]; [0; 65]; [0; 81]; [0; 97]])) /\
  decode_frame ex_rgb16 0 = Ok [33; 17; 65; 49; 97; 81].
Proof.
  split; [|vm_compute; reflexivity].
  apply annexg_intro.
  replace (byte_segments 2 3 [[4385; 12609; 20833]]) with [[17]; [33]; [49]; [65]; [81]; [97]]
    by (vm_compute; reflexivity).
  repeat (constructor; [match goal with |- packbits_enc [?x] _ => apply (pb_literal [x] [] []); [cbn; lia|constructor] end|]).
  constructor.
Qed.

Check C20_packbits : forall d b, packbits_enc d b -> unpack b = Ok d.
Check C20_frame : forall o f bps spp pixels frag,
  o_bits o = 8 * N.of_nat bps -> (bps = 1 \/ bps = 2)%nat -> o_spp o = N.of_nat spp ->
  (1 <= spp * bps <= 15)%nat ->
  (N.to_nat (o_rows o) * N.to_nat (o_cols o))%nat = length pixels -> wf_frame spp pixels ->
  nth_error (o_frags o) (N.to_nat f) = Some frag ->
  annexg_enc bps spp pixels frag -> len frag < 2 ^ 32 ->
  decode_frame o f = Ok (native_frame bps pixels).
Check C20_concat : forall o,
  bits_ok (o_bits o) = true ->
  decode o = concat_frames (map (decode_frame o) (frame_indices o)).
Check C20_whole : forall o bps spp frames,
  o_bits o = 8 * N.of_nat bps -> (bps = 1 \/ bps = 2)%nat -> o_spp o = N.of_nat spp ->
  (1 <= spp * bps <= 15)%nat ->
  Forall2 (encodes o bps spp) frames (o_frags o) ->
  decode o = Ok (concat (map (native_frame bps) frames)).
Print Assumptions C20_packbits.
Print Assumptions C20_packbits_padded.
Print Assumptions C20_frame.
Print Assumptions C20_concat.
Print Assumptions C20_whole.
