(** C28 — The association acceptor negotiates presentation contexts by the rules.
    Statements only; proofs are in Proofs/NegotiateP.v.  The model
    (Model/Negotiate.v) transcribes ul/src/association/server.rs
    [process_a_association_rq], [choose_ts], [choose_supported], [is_supported],
    the access control policies, and uid.rs [trim_uid].

    Every theorem holds for ANY registry [reg] (exact-key lookup returning the
    "unsupported" flag), any configuration, any request with any number of
    presentation contexts and any strings as UIDs.  The registry of the
    current tree is tied in at the end (regenerated table). *)
From DicomV Require Import Model.Negotiate Model.NegotiateCheck Proofs.NegotiateP.
From DicomV Require Import Gen.GenTsSupport.

(** One result per proposed presentation context, same identifiers, same order,
    both in the A-ASSOCIATE-AC and in the association object. *)
Theorem C28_one_result_per_context :
  forall reg c rq pcs pm acs am x y z,
    process_rq reg c (InRQ rq) = OAccept pcs pm acs am x y z ->
    map pn_id pcs = map pp_id (rq_pcs rq) /\ map pr_id acs = map pp_id (rq_pcs rq) /\
    acs = map to_result pcs /\ length pcs = length (rq_pcs rq).
Proof. exact one_result_per_context. Qed.

(** A context is accepted exactly when its abstract syntax is configured (or the
    acceptor is promiscuous) and some proposed transfer syntax is configured (any
    when none is configured) and supported by the registry ... *)
Theorem C28_accept_iff :
  forall reg c pc,
    pn_reason (negotiate_pc reg c pc) = R_ACCEPT <->
    abs_acceptable c (pp_abs pc) /\ exists ts, In ts (pp_ts pc) /\ ts_acceptable reg c ts.
Proof. exact accept_iff. Qed.

(** ... and then the accepted transfer syntax is the FIRST such proposed one. *)
Theorem C28_chosen_first :
  forall reg c pc,
    pn_reason (negotiate_pc reg c pc) = R_ACCEPT ->
    first_such (ts_acceptable reg c) (pp_ts pc) (pn_ts (negotiate_pc reg c pc)).
Proof. exact chosen_first. Qed.

(** Otherwise the reason names the failing condition (3 = abstract syntax not
    supported, 4 = transfer syntaxes not supported) and the filler transfer
    syntax is Implicit VR Little Endian. *)
Theorem C28_reason :
  forall reg c pc,
    let r := negotiate_pc reg c pc in
    (pn_reason r = R_ABSTRACT <-> ~ abs_acceptable c (pp_abs pc)) /\
    (pn_reason r = R_TS <-> abs_acceptable c (pp_abs pc) /\ forall ts, In ts (pp_ts pc) -> ~ ts_acceptable reg c ts) /\
    (pn_reason r = R_ACCEPT \/ pn_reason r = R_ABSTRACT \/ pn_reason r = R_TS) /\
    (pn_reason r <> R_ACCEPT -> pn_ts r = implicit_vr_le).
Proof. exact reason_cases. Qed.

(** The whole answer, for any number of contexts: every proposed context and its
    result are related by the declarative rule [ctx_rule] (Model/Negotiate.v),
    and that rule determines the result uniquely. *)
Theorem C28_contexts_by_rule :
  forall reg c rq pcs pm acs am x y z,
    process_rq reg c (InRQ rq) = OAccept pcs pm acs am x y z ->
    Forall2 (ctx_rule reg c) (rq_pcs rq) pcs.
Proof. exact contexts_by_rule. Qed.
Theorem C28_rule_functional :
  forall reg c pc r1 r2, ctx_rule reg c pc r1 -> ctx_rule reg c pc r2 -> r1 = r2.
Proof. exact ctx_rule_functional. Qed.

(** Rejections, with the matching reason: another protocol version ->
    service-provider (ACSE) / protocol-version-not-supported; another application
    context name -> service-user / application-context-name-not-supported;
    refused by access control -> service-user / the policy's reason
    (called-AE-title-not-recognized for [AcceptCalledAeTitle]).  A request is
    accepted exactly when it passes the three tests. *)
Theorem C28_reject :
  forall reg c rq,
    (rq_proto rq <> sc_proto c -> process_rq reg c (InRQ rq) = OReject SRC_ACSE RSN_PROTO) /\
    (rq_proto rq = sc_proto c -> rq_app_ctx rq <> sc_app_ctx c ->
       process_rq reg c (InRQ rq) = OReject SRC_USER RSN_APP_CTX) /\
    (forall reason, rq_proto rq = sc_proto c -> rq_app_ctx rq = sc_app_ctx c ->
       check_access (sc_access c) (sc_ae_title c) (rq_called rq) = Some reason ->
       process_rq reg c (InRQ rq) = OReject SRC_USER reason) /\
    ((exists pcs pm acs am x y z, process_rq reg c (InRQ rq) = OAccept pcs pm acs am x y z) <->
       rq_proto rq = sc_proto c /\ rq_app_ctx rq = sc_app_ctx c /\
       check_access (sc_access c) (sc_ae_title c) (rq_called rq) = None).
Proof.
  intros reg c rq. split; [apply reject_proto|]. split; [apply reject_app_ctx|].
  split; [intros reason; apply reject_access | apply accepted_iff_all_pass].
Qed.
Theorem C28_access_policies :
  forall a this called,
    check_access a this called =
    match a with
    | AcceptAny => None
    | AcceptCalledAeTitle => if str_eqb this called then None else Some RSN_CALLED_AE
    end.
Proof. exact check_access_spec. Qed.

(** The requestor's maximum PDU length is taken from its request: absent =>
    the default (32762), 0 => the largest supported, else the value capped at
    the largest supported.  (With several Max Length items the LAST one counts.) *)
Theorem C28_max_pdu :
  forall reg c rq pcs pm acs am x y z,
    process_rq reg c (InRQ rq) = OAccept pcs pm acs am x y z ->
    pm = match last_max (rq_uvars rq) with
         | None => DEFAULT_MAX_PDU
         | Some 0 => MAXIMUM_PDU_SIZE
         | Some n => N.min n MAXIMUM_PDU_SIZE
         end
    /\ am = sc_max_pdu c /\ 0 < pm <= MAXIMUM_PDU_SIZE.
Proof.
  intros reg c rq pcs pm acs am x y z H.
  destruct (process_accept_inv _ _ _ _ _ _ _ _ _ _ H) as [_ [_ [-> [-> _]]]].
  split; [apply requestor_max_spec|]. split; [reflexivity | apply requestor_max_bounds].
Qed.
Theorem C28_last_max :
  forall uv,
    (last_max uv = None <-> forall n, ~ In (UvMaxLength n) uv) /\
    (forall uv1 n uv2, uv = uv1 ++ UvMaxLength n :: uv2 -> (forall m, ~ In (UvMaxLength m) uv2) ->
       last_max uv = Some n).
Proof.
  intros uv. split; [apply last_max_none|]. intros uv1 n uv2 -> H. apply last_max_app; exact H.
Qed.

(** The registry of the current tree (Gen/GenTsSupport.v, regenerated on every
    run): the table has the announced length, no duplicate UID, and Implicit VR
    Little Endian is registered and supported. *)
Theorem C28_registry_table :
  N.of_nat (length ts_table) = ts_table_len /\ NoDup (map fst ts_table) /\
  is_supported reg_table implicit_vr_le = true.
Proof.
  split; [vm_compute; reflexivity|]. split; [|vm_compute; reflexivity].
  assert (D : forall (l : list str), (fix nodup (l : list str) : bool :=
              match l with [] => true | x :: l' => negb (mem x l') && nodup l' end) l = true -> NoDup l).
  { induction l as [|x l IH]; intros H; constructor.
    - apply andb_true_iff in H. destruct H as [H _]. apply negb_true_iff in H.
      intros Hin. apply mem_In in Hin. congruence.
    - apply IH. apply andb_true_iff in H. apply H. }
  apply D. vm_compute. reflexivity.
Qed.

(** Non-vacuity: a configuration with two abstract syntaxes and two transfer
    syntaxes answers a three-context request with one acceptance (first
    acceptable transfer syntax = the NUL-padded Explicit VR LE), one
    "transfer syntaxes not supported" and one "abstract syntax not supported". *)
Example C28_nonvacuous :
  let ile := implicit_vr_le in
  let ele := implicit_vr_le ++ [46;49] in
  let c := mk_cfg (AcceptAny, [83], [[49;46;50]; [49;46;51]], [ile; ele], 16384, false) in
  let rq := {| rq_proto := 1; rq_calling := [65]; rq_called := [66]; rq_app_ctx := default_app_ctx;
               rq_pcs := [ {| pp_id := 1; pp_abs := [49;46;50;0]; pp_ts := [[49;46;57]; ele ++ [0]; ile] |};
                           {| pp_id := 3; pp_abs := [49;46;51]; pp_ts := [[49;46;57]] |};
                           {| pp_id := 5; pp_abs := [49;46;52]; pp_ts := [ile] |} ];
               rq_uvars := [UvMaxLength 0; UvOther] |} in
  process_rq reg_table c (InRQ rq) =
  OAccept [ {| pn_id := 1; pn_reason := 0; pn_ts := ele ++ [0]; pn_abs := [49;46;50] |};
            {| pn_id := 3; pn_reason := 4; pn_ts := ile; pn_abs := [49;46;51] |};
            {| pn_id := 5; pn_reason := 3; pn_ts := ile; pn_abs := [49;46;52] |} ]
          MAXIMUM_PDU_SIZE
          [ {| pr_id := 1; pr_reason := 0; pr_ts := ele ++ [0] |};
            {| pr_id := 3; pr_reason := 4; pr_ts := ile |};
            {| pr_id := 5; pr_reason := 3; pr_ts := ile |} ]
          16384 default_app_ctx [65] [66].
Proof. vm_compute. reflexivity. Qed.

Check C28_one_result_per_context :
  forall reg c rq pcs pm acs am x y z,
    process_rq reg c (InRQ rq) = OAccept pcs pm acs am x y z ->
    map pn_id pcs = map pp_id (rq_pcs rq) /\ map pr_id acs = map pp_id (rq_pcs rq) /\
    acs = map to_result pcs /\ length pcs = length (rq_pcs rq).
Check C28_accept_iff :
  forall reg c pc,
    pn_reason (negotiate_pc reg c pc) = R_ACCEPT <->
    abs_acceptable c (pp_abs pc) /\ exists ts, In ts (pp_ts pc) /\ ts_acceptable reg c ts.
Check C28_chosen_first :
  forall reg c pc,
    pn_reason (negotiate_pc reg c pc) = R_ACCEPT ->
    first_such (ts_acceptable reg c) (pp_ts pc) (pn_ts (negotiate_pc reg c pc)).
Check C28_contexts_by_rule :
  forall reg c rq pcs pm acs am x y z,
    process_rq reg c (InRQ rq) = OAccept pcs pm acs am x y z ->
    Forall2 (ctx_rule reg c) (rq_pcs rq) pcs.
Check C28_reject :
  forall reg c rq,
    (rq_proto rq <> sc_proto c -> process_rq reg c (InRQ rq) = OReject SRC_ACSE RSN_PROTO) /\
    (rq_proto rq = sc_proto c -> rq_app_ctx rq <> sc_app_ctx c ->
       process_rq reg c (InRQ rq) = OReject SRC_USER RSN_APP_CTX) /\
    (forall reason, rq_proto rq = sc_proto c -> rq_app_ctx rq = sc_app_ctx c ->
       check_access (sc_access c) (sc_ae_title c) (rq_called rq) = Some reason ->
       process_rq reg c (InRQ rq) = OReject SRC_USER reason) /\
    ((exists pcs pm acs am x y z, process_rq reg c (InRQ rq) = OAccept pcs pm acs am x y z) <->
       rq_proto rq = sc_proto c /\ rq_app_ctx rq = sc_app_ctx c /\
       check_access (sc_access c) (sc_ae_title c) (rq_called rq) = None).
Check C28_max_pdu :
  forall reg c rq pcs pm acs am x y z,
    process_rq reg c (InRQ rq) = OAccept pcs pm acs am x y z ->
    pm = match last_max (rq_uvars rq) with
         | None => DEFAULT_MAX_PDU
         | Some 0 => MAXIMUM_PDU_SIZE
         | Some n => N.min n MAXIMUM_PDU_SIZE
         end
    /\ am = sc_max_pdu c /\ 0 < pm <= MAXIMUM_PDU_SIZE.
Print Assumptions C28_one_result_per_context.
Print Assumptions C28_accept_iff.
Print Assumptions C28_chosen_first.
Print Assumptions C28_reason.
Print Assumptions C28_contexts_by_rule.
Print Assumptions C28_rule_functional.
Print Assumptions C28_reject.
Print Assumptions C28_access_policies.
Print Assumptions C28_max_pdu.
Print Assumptions C28_last_max.
Print Assumptions C28_registry_table.
