(** C19 — Lossless transcoding preserves pixel data exactly; attributes stay
    consistent. Statements only; proofs are in Proofs/TranscodeP.v.

    [transcode deflate inflate o t] is the model of
    [Transcode::transcode] (pixeldata/src/transcode.rs) on an object with native
    or encapsulated pixel data; [write_read] is the effect of a stream round
    trip on the Pixel Data element (odd-length values and fragments come back
    padded). [deflate]/[inflate] stand for flate2 and are arbitrary functions. *)
From DicomV Require Import Base.Prelude Model.Transcode Proofs.TranscodeP.

(** Between native transfer syntaxes nothing but the transfer syntax changes. *)
Theorem C19_native_native : forall deflate inflate o t,
  is_encaps (ts o) = false -> is_encaps t = false ->
  exists o', transcode deflate inflate o t = Ok o' /\ pixv o' = pixv o /\ ts o' = t /\
             same_image o o' /\ nframes o' = nframes o.
Proof. intros deflate inflate. exact (native_native deflate inflate). Qed.

(** ... and back to Explicit VR Little Endian, possibly through a stream: the value is the
    pixel data (followed by the one padding byte of an odd-length value after a stream
    round trip), and it decodes to exactly the original pixels. *)
Theorem C19_native_rt : forall deflate inflate o px n t (via : bool),
  wf_image o px n -> is_encaps t = false ->
  exists o1 o2,
    transcode deflate inflate o t = Ok o1 /\
    transcode deflate inflate (if via then write_read o1 else o1) TS_ELE = Ok o2 /\
    ts o2 = TS_ELE /\ same_image o o2 /\ nframes o2 = nframes o /\
    pixv o2 = PNative (if via then pad_even px else px) /\ decode_pixel_data inflate o2 = Ok px.
Proof. intros deflate inflate. exact (native_roundtrip deflate inflate). Qed.

(** Encapsulated Uncompressed: any well-formed native image (8/16 bits, any samples per
    pixel, any number of frames, ODD frame sizes included), with or without a stream round
    trip in between, comes back byte-identical. No assumption on deflate/inflate. *)
Theorem C19_encaps_uncompressed_rt : forall deflate inflate o px n (via : bool),
  wf_image o px n ->
  exists o1 o2,
    transcode deflate inflate o TS_EU = Ok o1 /\
    transcode deflate inflate (if via then write_read o1 else o1) TS_ELE = Ok o2 /\
    pixv o2 = PNative px /\ ts o2 = TS_ELE /\ same_image o o2 /\ nframes o2 = Some (Z.of_nat n).
Proof. intros deflate inflate. exact (eu_roundtrip deflate inflate). Qed.

(** Deflated Image Frame Compression: the same, assuming that inflate undoes deflate and
    ignores a padding byte after the deflate stream. *)
Theorem C19_deflated_rt : forall deflate inflate,
  (forall b, inflate (deflate b) = Some b) ->
  (forall b, inflate (deflate b ++ [0]) = Some b) ->
  forall o px n (via : bool),
  wf_image o px n ->
  exists o1 o2,
    transcode deflate inflate o TS_DEFL = Ok o1 /\
    transcode deflate inflate (if via then write_read o1 else o1) TS_ELE = Ok o2 /\
    pixv o2 = PNative px /\ ts o2 = TS_ELE /\ same_image o o2 /\ nframes o2 = Some (Z.of_nat n).
Proof. intros deflate inflate H1 H2. exact (defl_roundtrip deflate inflate H1 H2). Qed.

(** Attributes: in the encapsulated state there is one even-length fragment per frame,
    Number of Frames is the frame count and (7FE0,0003) is the total of the fragment
    lengths; and rows * cols * samples * bytes * frames is the pixel data length
    throughout (the image attributes never change: [same_image] above). *)
Theorem C19_attributes : forall deflate inflate o px n t,
  wf_image o px n -> is_encaps t = true ->
  blen px = rows o * cols o * spp o * (ba o / 8) * N.of_nat n /\
  exists o1 frs, transcode deflate inflate o t = Ok o1 /\ pixv o1 = PFrags frs /\
    length frs = n /\ Forall (fun f => N.odd (blen f) = false) frs /\
    total o1 = Some (sum_len frs) /\ nframes o1 = Some (Z.of_nat n).
Proof.
  intros deflate inflate o px n t W Ht. split; [now apply wf_length|].
  destruct (encoded_state deflate inflate o px n t W Ht) as (frs & H). exists (encoded deflate o px n t), frs. exact H.
Qed.

(** Non-vacuity: the 3x3, 8-bit, two-frame image of DESIGN section 9 (odd frame size 9)
    is well-formed, and the model really computes the round trip through a stream. *)
Definition probe : obj :=
  {| ts := TS_ELE; rows := 3; cols := 3; spp := 1; ba := 8; nframes := Some 2%Z; total := None;
     pixv := PNative [1;2;3;4;5;6;7;8;9;10;11;12;13;14;15;16;17;18] |}.
Example C19_nonvacuous :
  wf_image probe [1;2;3;4;5;6;7;8;9;10;11;12;13;14;15;16;17;18] 2 /\
  match transcode toy_deflate toy_inflate probe TS_EU with
  | Ok o1 => pixv (write_read o1) = PFrags [[1;2;3;4;5;6;7;8;9;0]; [10;11;12;13;14;15;16;17;18;0]] /\
             total o1 = Some 20 /\
             match transcode toy_deflate toy_inflate (write_read o1) TS_ELE with
             | Ok o2 => pixv o2 = pixv probe
             | _ => False
             end
  | _ => False
  end.
Proof. split; [unfold wf_image; cbn; repeat split; auto; lia | vm_compute; repeat split; reflexivity]. Qed.

Check C19_encaps_uncompressed_rt : forall deflate inflate o px n (via : bool),
  wf_image o px n ->
  exists o1 o2,
    transcode deflate inflate o TS_EU = Ok o1 /\
    transcode deflate inflate (if via then write_read o1 else o1) TS_ELE = Ok o2 /\
    pixv o2 = PNative px /\ ts o2 = TS_ELE /\ same_image o o2 /\ nframes o2 = Some (Z.of_nat n).
Check C19_deflated_rt : forall deflate inflate,
  (forall b, inflate (deflate b) = Some b) ->
  (forall b, inflate (deflate b ++ [0]) = Some b) ->
  forall o px n (via : bool),
  wf_image o px n ->
  exists o1 o2,
    transcode deflate inflate o TS_DEFL = Ok o1 /\
    transcode deflate inflate (if via then write_read o1 else o1) TS_ELE = Ok o2 /\
    pixv o2 = PNative px /\ ts o2 = TS_ELE /\ same_image o o2 /\ nframes o2 = Some (Z.of_nat n).
Print Assumptions C19_native_native.
Print Assumptions C19_native_rt.
Print Assumptions C19_encaps_uncompressed_rt.
Print Assumptions C19_deflated_rt.
Print Assumptions C19_attributes.
