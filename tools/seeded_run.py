#!/usr/bin/env python3
"""tools/seeded_run.py <seed dir> [Cnn ...]
Runs the checks of the given properties (default: the property of meta.json) against a scratch worktree of
/repo with the seeded change applied, using a scratch COPY of /verif, so /repo and /verif stay untouched.
Writes <seed dir>/result.json. (Final confirmation against /repo itself: git -C /repo apply ...; ./check; checkout.)"""
import json, os, re, shutil, subprocess, sys, time
D = os.path.realpath(sys.argv[1]); ID = os.path.basename(D)
meta = json.load(open(os.path.join(D, "meta.json")))
props = sys.argv[2:] or [meta["property"]]
SLOT = os.environ.get("SR_SLOT", "")          # parallel slots: separate scratch worktree / copy / lock each
WT = "/tmp/sr_repo" + SLOT; ALT = "/tmp/verif_alt" + SLOT
# one run at a time (the scratch worktree and the scratch copy of /verif are shared so that their build caches are reused)
import fcntl
_lock = open("/tmp/seeded_run%s.lock" % SLOT, "w"); fcntl.flock(_lock, fcntl.LOCK_EX)
def sh(cmd, **kw):
    return subprocess.run(cmd, shell=True, stdout=subprocess.PIPE, stderr=subprocess.STDOUT, text=True, **kw)
sh("git -C /repo worktree remove --force %s; rm -rf %s" % (WT, WT))
r = sh("git -C /repo worktree add --detach %s HEAD" % WT)
r = sh("git apply %s/patch.diff" % D, cwd=WT)
if r.returncode != 0:
    print("patch does not apply:", r.stdout); sys.exit(3)
os.makedirs(ALT, exist_ok=True)
# committed state of /verif only (others may be mid-edit in the working tree); keep ALT's build products
EXP = "/tmp/verif_export" + SLOT
sh("rm -rf %s; mkdir -p %s; git -C /verif archive HEAD | tar -x -C %s" % (EXP, EXP, EXP))
sh("rsync -rc --delete --exclude .cache --exclude replay --exclude '*.vo' --exclude '*.vos' --exclude '*.vok' --exclude '*.glob' --exclude '*.aux' "
   "--exclude 'coq/Makefile*' --exclude 'coq/.Makefile.d' --exclude 'coq/.mk.sha' --exclude 'coq/Gen' --exclude 'coq/.lia.cache' --exclude Cargo.lock %s/ %s/" % (EXP, ALT))
sh("sed -i 's#/repo/#%s/#g' %s/harness/g_*/Cargo.toml" % (WT, ALT))
res = {"seed": ID, "base": sh("git -C /repo rev-parse HEAD").stdout.strip(), "verif": sh("git -C /verif rev-parse HEAD").stdout.strip(), "checks": {}}
env = dict(os.environ, VERIF_REPO=WT, CARGO_NET_OFFLINE="true")
for p in props:
    t = time.time()
    r = subprocess.run(["./check", p, "--tier", "quick"], cwd=ALT, env=env, stdout=subprocess.PIPE, stderr=subprocess.STDOUT, text=True)
    out = r.stdout
    m = re.search(r"^VIOLATION property=(\S+) replay=(\S+)(.*)$", out, re.M)
    entry = {"exit": r.returncode, "violation_line": m.group(0) if m else None, "wall_s": round(time.time() - t, 1), "tail": out[-1500:]}
    if m and os.path.exists(m.group(2)):
        try:
            rep = json.load(open(m.group(2)))
            entry["replay"] = {k: rep.get(k) for k in ("kind", "class", "detail", "broken", "found", "case")}
        except Exception as e:
            entry["replay"] = str(e)
    res["checks"][p] = entry
    print(p, "exit", r.returncode, entry["violation_line"])
json.dump(res, open(os.path.join(D, "result.json"), "w"), indent=1, default=str)
sh("git -C /repo worktree remove --force %s; rm -rf %s" % (WT, WT))
