#!/usr/bin/env python3
"""Print a markdown table of the seeded changes under /verif/seeded and what the checks reported on them."""
import glob, json, os
V = os.path.dirname(os.path.dirname(os.path.abspath(__file__)))
rows = []
for d in sorted(glob.glob(os.path.join(V, "seeded", "C*"))):
    name = os.path.basename(d)
    try:
        m = json.load(open(os.path.join(d, "meta.json")))
    except Exception:
        continue
    ver = "?"
    vp = os.path.join(d, "verified.json")
    if os.path.exists(vp):
        ver = "yes" if json.load(open(vp)).get("confirmed") else "NO"
    res = "not run"
    rp = os.path.join(d, "result.json")
    if os.path.exists(rp):
        r = json.load(open(rp))
        parts = []
        for p, c in r["checks"].items():
            rep = c.get("replay") if isinstance(c.get("replay"), dict) else {}
            if c["exit"] == 1 and c.get("violation_line"):
                if rep.get("found"):
                    parts.append("%s: VIOLATION with failing input (class `%s`)" % (p, rep.get("class")))
                else:
                    parts.append("%s: VIOLATION no-failing-input-found (%s)" % (p, "; ".join(rep.get("broken") or [])[:80]))
            else:
                parts.append("%s: MISSED (exit %s)" % (p, c["exit"]))
        res = "<br>".join(parts)
    what = (m.get("what_it_breaks") or "").replace("\n", " ").replace("|", "/")
    need = (m.get("needs_to_manifest") or "").replace("\n", " ").replace("|", "/")
    rows.append("| %s | %s | %s | %s | %s |" % (name, what[:260], need[:200], ver, res))
print("| seed | change | needs to manifest | confirmed (demo+suite) | check result |")
print("|---|---|---|---|---|")
print("\n".join(rows))
