#!/bin/bash
# tools/seeded_verify.sh <dir with patch.diff demo.rs meta.json>
# Confirms in a scratch worktree that the seeded change (1) applies and compiles, (2) the demo passes
# without it and fails with it, (3) the workspace test suite (stable baseline) still passes with it.
set -u
D=$(realpath "$1"); ID=$(basename "$D")
WT=${SV_WT:-/tmp/sv}_$ID; export CARGO_TARGET_DIR=${SV_TARGET:-/tmp/sv_target}; export CARGO_NET_OFFLINE=true
PKG=$(python3 -c "import json;print(json.load(open('$D/meta.json'))['package'])")
CDIR=$(python3 -c "import json;print(json.load(open('$D/meta.json'))['crate_dir'])")
# features the demo needs (taken from meta.json's test_command, e.g. --features rle)
FEAT=$(python3 -c "
import json,re
m=re.search(r'--features[= ]+(\"[^\"]+\"|\S+)', json.load(open('$D/meta.json')).get('test_command',''))
print('--features '+m.group(1).strip('\"') if m else '')")
git -C /repo worktree remove --force $WT 2>/dev/null; rm -rf $WT
git -C /repo worktree add --detach $WT HEAD >/dev/null 2>&1 || { echo "worktree failed"; exit 2; }
cd $WT
mkdir -p $CDIR/tests && cp $D/demo.rs $CDIR/tests/seeded_demo.rs
echo "== demo on unchanged code"
timeout 1800 cargo test --offline -q -p $PKG $FEAT --test seeded_demo > $D/verify_demo_base.log 2>&1; R1=$?
echo "   exit $R1 (want 0)"
git apply $D/patch.diff || { echo "patch does not apply"; git -C /repo worktree remove --force $WT; exit 3; }
echo "== demo with the change"
timeout 1800 cargo test --offline -q -p $PKG $FEAT --test seeded_demo > $D/verify_demo_mut.log 2>&1; R2=$?
echo "   exit $R2 (want != 0)"
rm -f $CDIR/tests/seeded_demo.rs
echo "== workspace tests with the change"
timeout 3600 cargo test --offline --workspace --no-fail-fast > $D/verify_suite.log 2>&1; R3=$?
python3 - "$D" <<'PY'
import json,re,sys
D=sys.argv[1]
base=json.load(open('/root/.vp/BASELINE.json'))
stable=set(base['stable_pass'])
log=open(D+'/verify_suite.log').read()
failed=set(re.findall(r'^test (\S+) \.\.\. FAILED',log,re.M))
# names in the baseline are "<package>::<test path>"; cargo prints only the test path
bad=[t for t in failed if any(s.endswith('::'+t) for s in stable) and not any(a.endswith('::'+t) for a in base['always_fail'])]
compiled='error: could not compile' not in log and 'error[E' not in log
# timing-sensitive tests (e.g. test_slow_association: 25 ms slack) flake under machine load: retry them alone
import subprocess
still=[]
for t in bad:
    ok=False
    for _ in range(3):
        r=subprocess.run(['cargo','test','--offline','--workspace',t.split('::')[-2] if t.count('::') else t,'--','--test-threads','1'],stdout=subprocess.PIPE,stderr=subprocess.STDOUT,text=True)
        if re.search(r'^test \S*'+re.escape(t)+r' \.\.\. ok',r.stdout,re.M) and not re.search(r'^test \S*'+re.escape(t)+r' \.\.\. FAILED',r.stdout,re.M):
            ok=True; break
    if not ok: still.append(t)
if bad!=still: print("   retried alone and passed:",[t for t in bad if t not in still])
bad=still
print("   compiled:",compiled," failed tests:",len(failed)," failing stable tests:",bad)
json.dump({"compiled":compiled,"failed_stable":bad,"n_failed":len(failed)},open(D+'/verify_suite.json','w'))
PY
cd /; git -C /repo worktree remove --force $WT; rm -rf $WT
python3 - "$D" $R1 $R2 <<'PY'
import json,sys
D=sys.argv[1]; r1=int(sys.argv[2]); r2=int(sys.argv[3])
s=json.load(open(D+'/verify_suite.json'))
ok = r1==0 and r2!=0 and s['compiled'] and not s['failed_stable']
json.dump({"demo_pass_without":r1==0,"demo_fail_with":r2!=0,"suite":s,"confirmed":ok},open(D+'/verified.json','w'),indent=1)
print("CONFIRMED" if ok else "NOT CONFIRMED", D)
PY
