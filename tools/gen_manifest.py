#!/usr/bin/env python3
"""Generate /verif/MANIFEST.json from props/*.json (one spec per claimed property)."""
import glob, json, os, subprocess
V = os.path.dirname(os.path.dirname(os.path.abspath(__file__)))
specs = [json.load(open(p)) for p in sorted(glob.glob(os.path.join(V, "props", "C*.json")))]
claimed = {s["id"] for s in specs}
allp = [json.loads(l) for l in open(os.path.join(V, "properties.jsonl"))]
na_file = os.path.join(V, "props", "not_applicable.json")
na_reasons = json.load(open(na_file)) if os.path.exists(na_file) else {}
hooks_file = os.path.join(V, "props", "hooks.json")
hooks = json.load(open(hooks_file)) if os.path.exists(hooks_file) else {"source_commits": []}
man = {
 "version": 1,
 "setup_cmd": "cd /verif && ./setup.sh",
 "hooks": {
  "guard": "dicom_rs_verif",
  "enable": "RUSTFLAGS=\"--cfg dicom_rs_verif\" (set by lib/vcheck.py when it builds harness/ and the tool binaries from /repo's working tree)",
  "baseline_off_cmd": "cd /repo && cargo test --workspace --no-fail-fast --offline",
  "source_commits": hooks.get("source_commits", []),
  "add_only": True
 },
 "engines": [
  {"name": "coq", "path": "coq/", "serves_properties": sorted(claimed), "kind_free_text": "Coq 8.16.1 development: executable Gallina models (Model/), proofs (Proofs/), pinned property theorems (Properties/), tables regenerated from the code (Gen/)"},
  {"name": "vh", "path": "harness/", "serves_properties": sorted(claimed), "kind_free_text": "Rust harness linked against /repo by path: regenerates behavioural tables, runs the implementation on generated cases and prints them as Coq terms for the model comparison; direct property oracle for the failing-input search"}
 ],
 "checks": [],
 "notes": "Every check: ./check Cnn --tier T. See DESIGN.md. Known findings: KNOWN_FINDINGS.txt.",
 "not_applicable": []
}
for s in specs:
    man["checks"].append({
      "property_id": s["id"],
      "quick_cmd": "./check %s --tier quick" % s["id"],
      "thorough_cmd": "./check %s --tier thorough" % s["id"],
      "evidence_file": "/verif/evidence/%s.json" % s["id"],
      "replay_cmd_template": "./check %s --replay {path}" % s["id"],
      "engine": "coq",
      "level_claimed": {"category": "proof", "text": s["level_text"], "design_ref": s.get("design_ref", "DESIGN.md section 6")},
      "level_note": s["level_note"],
      "technique": s["technique"],
    })
for p in allp:
    if p["id"] not in claimed:
        man["not_applicable"].append({"property_id": p["id"], "reason": na_reasons.get(p["id"], "not yet covered by the Coq development at this commit (work in progress; no check is registered, nothing is claimed)")})
json.dump(man, open(os.path.join(V, "MANIFEST.json"), "w"), indent=1)
print("MANIFEST.json: %d checks, %d not claimed" % (len(man["checks"]), len(man["not_applicable"])))
