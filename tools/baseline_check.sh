#!/bin/bash
# Runs the repository's test suite (guard off) on /repo's current tree (or $1) and compares with the stable baseline.
R=${1:-/repo}
cd $R && CARGO_NET_OFFLINE=true timeout 5400 cargo test --workspace --no-fail-fast --offline > /tmp/baseline_run.log 2>&1
python3 - <<'PY'
import json,re
base=json.load(open('/root/.vp/BASELINE.json'))
log=open('/tmp/baseline_run.log').read()
failed=set(re.findall(r'^test (\S+) \.\.\. FAILED',log,re.M))
passed=set(re.findall(r'^test (\S+) \.\.\. ok',log,re.M))
stable=base['stable_pass']; af=base['always_fail']
bad=sorted(t for t in failed if any(s.endswith('::'+t) for s in stable) and not any(a.endswith('::'+t) for a in af))
missing=[s for s in stable if not any(s.endswith('::'+t) for t in passed)]
print("passed",len(passed),"failed",len(failed),"stable failing:",bad)
print("stable not seen passing:",len(missing),missing[:10])
print("compile errors:", 'error: could not compile' in log)
PY
